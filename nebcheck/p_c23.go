package main

import (
	"fmt"
	"go/token"
	"go/types"
	"os"
	"sort"
	"strings"

	"golang.org/x/tools/go/ssa"
)

const c23Pkg = "overlay/batch"

// c23Lane names the objects of one coalescing lane; the TCP and UDP lanes are siblings and get
// the same rules from this table.
type c23Lane struct {
	name, coal, slot, parsed string
	maxSegs, bufSize         string // constants capping a superpacket
	hdrMatch                 string // the lane's L4 header matcher
	gsoProto                 string // tio constant passed to WriteGSO
	ipProto                  string // batch constant dispatch routes on
	iana                     int64  // what that constant must be
}

var c23Lanes = []c23Lane{
	{"tcp", "TCPCoalescer", "coalesceSlot", "parsedTCP", "tcpCoalesceMaxSegs", "tcpCoalesceBufSize", "headersMatch", "GSOProtoTCP", "ipProtoTCP", 6},
	{"udp", "UDPCoalescer", "udpSlot", "parsedUDP", "udpCoalesceMaxSegs", "udpCoalesceBufSize", "udpHeadersMatch", "GSOProtoUDP", "ipProtoUDP", 17},
}

func c23Patterns() []string {
	if os.Getenv("G11_FAST") != "" { // development aid: lane rules only
		return []string{"./overlay/batch"}
	}
	return []string{"."}
}

func (l c23Lane) m(name string) Ref { return Ref{c23Pkg, l.coal, name} }

// ---------------------------------------------------------------------------------------
// summaries: how many packets a function hands to an output queue (cons) / how many writes it
// issues to the tun writer (emit), over all its paths, closed over static callees of the package.

type c23Sum struct {
	c    *Ctx
	prim func(ssa.Instruction) bool
	memo map[*ssa.Function]uint8
	busy map[*ssa.Function]bool
}

func (s *c23Sum) of(fn *ssa.Function) uint8 {
	if fn == nil || fn.Blocks == nil || pkgPathOf(fn) != PkgPath(c23Pkg) {
		return g11Zero
	}
	if m, ok := s.memo[fn]; ok {
		return m
	}
	if s.busy[fn] {
		return g11Zero
	}
	s.busy[fn] = true
	cf := g11CountsM(fn.Blocks[0], nil, s.ev)
	m := uint8(0)
	for _, r := range g11Returns(fn) {
		if _, reach := cf.in[r.Block()]; reach {
			m |= cf.before(r)
		}
	}
	if m == 0 {
		m = g11Zero
	}
	delete(s.busy, fn)
	s.memo[fn] = m
	return m
}

func (s *c23Sum) ev(in ssa.Instruction) uint8 {
	if s.prim(in) {
		return g11One
	}
	if ci, ok := in.(ssa.CallInstruction); ok {
		if callee := ci.Common().StaticCallee(); callee != nil {
			if m := s.of(callee); m != g11Zero {
				return m
			}
		}
	}
	return 0
}

// c23AppendStore: in is `X.f = append(X.f, e...)` for one of the queue fields; extension only
// (append to the field's own current value, not to a re-sliced [:0]). Returns the appended values.
func c23AppendStore(in ssa.Instruction, fields map[*types.Var]bool) (*types.Var, []ssa.Value, bool) {
	st, ok := in.(*ssa.Store)
	if !ok {
		return nil, nil, false
	}
	fa, ok := st.Addr.(*ssa.FieldAddr)
	if !ok || !fields[fieldOfAddr(fa)] {
		return nil, nil, false
	}
	call, ok := st.Val.(*ssa.Call)
	if !ok || builtinName(call) != "append" || !loadsField(call.Call.Args[0], fieldOfAddr(fa)) {
		return nil, nil, false
	}
	return fieldOfAddr(fa), g11VarargElems(call.Call.Args[1]), true
}

// g11VarargElems: the values stored into the `new [n]T (varargs)` array behind a variadic slice.
func g11VarargElems(v ssa.Value) []ssa.Value {
	sl, ok := v.(*ssa.Slice)
	if !ok {
		return nil
	}
	al, ok := sl.X.(*ssa.Alloc)
	if !ok || al.Referrers() == nil {
		return nil
	}
	var out []ssa.Value
	for _, r := range *al.Referrers() {
		if ia, ok := r.(*ssa.IndexAddr); ok && ia.Referrers() != nil {
			for _, q := range *ia.Referrers() {
				if s, ok := q.(*ssa.Store); ok && s.Addr == ssa.Value(ia) {
					out = append(out, s.Val)
				}
			}
		}
	}
	return out
}

// g11ParamCell: the local a by-value parameter is spilled to at entry (`t0 = local T (p); *t0 = p`)
// when nothing else is ever stored into it, so loads from it denote the parameter.
func g11ParamCell(p *ssa.Parameter) *ssa.Alloc {
	if p.Referrers() == nil {
		return nil
	}
	for _, r := range *p.Referrers() {
		st, ok := r.(*ssa.Store)
		if !ok || st.Val != ssa.Value(p) {
			continue
		}
		al, ok := st.Addr.(*ssa.Alloc)
		if !ok || len(storesInto(al)) != 1 {
			continue
		}
		return al
	}
	return nil
}

// g11IsParam: v denotes parameter p (the value itself or a load of its spill cell).
func g11IsParam(v ssa.Value, p *ssa.Parameter) bool {
	if p == nil {
		return false
	}
	if v == ssa.Value(p) {
		return true
	}
	if u, ok := v.(*ssa.UnOp); ok && u.Op == token.MUL {
		if al := g11ParamCell(p); al != nil && u.X == ssa.Value(al) {
			return true
		}
	}
	return false
}

// g11IsParamField: v is p.f for a struct (or pointer-to-struct) parameter p.
func g11IsParamField(v ssa.Value, p *ssa.Parameter, f *types.Var) bool {
	if p == nil || f == nil {
		return false
	}
	switch x := v.(type) {
	case *ssa.Field:
		return fieldOfVal(x) == f && g11IsParam(x.X, p)
	case *ssa.UnOp:
		if x.Op != token.MUL {
			return false
		}
		fa, ok := x.X.(*ssa.FieldAddr)
		if !ok || fieldOfAddr(fa) != f {
			return false
		}
		if fa.X == ssa.Value(p) {
			return true
		}
		if al := g11ParamCell(p); al != nil && fa.X == ssa.Value(al) {
			return true
		}
	}
	return false
}

func init() {
	register(&Property{
		ID: "C23", Title: "Receive coalescing is transparent to the tun device",
		Patterns:    c23Patterns(),
		Technique:   "path counting (0/1/many) of queue insertions and tun writes closed over callee summaries, CFG guard reachability with linear entailment on the admission / append / flush tests, seal-before-verbatim ordering, finite comparison table of the staging order, provenance tables for staged fields, slot state and WriteGSO arguments, byte-range coverage of the header matchers, who-may-write tables",
		LevelText:   "Structural necessary conditions on every path of the staging and lane logic: each committed packet is staged once with its own (epoch, counter, protocol, fragment flag, L4 offset); Flush sorts by exactly (epoch, counter), dispatches every staged packet once by protocol, empties the stage and then flushes every lane; every lane function consumes its packet exactly once (verbatim slot, new slot or payload append); a verbatim is queued only after the flow (all flows when the flow is unknown) was sealed, except the TCP pure ACK behind its own tests; TCP segments join or seed a chain only with ACK set and no flag outside ACK/PSH/ECE; canAppend returns true only behind the sequence, segment-count, segment-size, total-size, ECE, IPv4-ID and header-match tests, whose compared byte ranges cover every header byte the kernel does not rewrite; a short or PSH segment closes the chain; seed and appendPayload keep the slot state the flusher reads; each lane flush writes every slot exactly once (verbatim / single-segment raw, otherwise one WriteGSO over the seed header and all payloads) before recycling it and leaves no slot or open chain behind.",
		LevelNote:   "Not decided: byte transparency after kernel segmentation (header patching, checksum seeds, length arithmetic, IPv4-ID arithmetic inside ipv4CanCoalesceID, parse offsets), map/slice aliasing, the tio writers. Inequalities are entailed over ideal integers.",
		Explanation: "K5 with callee summaries (cons/emit), K1 (+entailment, +one-level boolean helper summaries), K8 on compareStaged, K11 tables, K7 byte-range coverage, K2 who-may-write",
		Run:         runC23,
		Canaries:    c23Canaries,
	})
}

type c23Ctx struct {
	c       *Ctx
	env     *g11Env
	qfields map[*types.Var]bool // queue fields whose append is a "consumption"
	cons    *c23Sum
	emit    *c23Sum
	funcs   []*ssa.Function // non-test functions of the batch package
	all     []*ssa.Function // non-test functions of every loaded module package
}

func runC23(c *Ctx) {
	c.Rule("C23.linear", "K5: dispatch, commitStaged, commitParsed, seed, addVerbatim, appendPayload (both lanes), Passthrough.enqueue and MultiCoalescer.Commit put their packet into exactly one output queue on every path (callee summaries included)", 13)
	c.Rule("C23.producers", "K2/K5: no other function of the package queues packets, unless it is a helper called only from those", 1)
	c.Rule("C23.packet", "K11: what is queued / passed down is the function's own packet (and parse record), never another slot's", 30)
	c.Rule("C23.stage", "K11/K8: Commit stages (pkt, key, pp.Protocol, pp.FragAny, pp.IPHdrLen); compareStaged is lexicographic (Epoch, Counter); Flush sorts the stage with it before dispatching", 3)
	c.Rule("C23.flush", "K5/K1: MultiCoalescer.Flush dispatches every staged packet once, empties the stage and flushes all lanes afterwards; lane flushes write each slot exactly once by the right arm before recycling it and leave no slot / open chain behind; flushSlot issues one WriteGSO over (seed header split at ipHdrLen, payIovs, lane protocol)", 26)
	c.Rule("C23.route", "K1: dispatch hands a packet to a lane only if its protocol number is the lane's (TCP 6 / UDP 17) and the lane exists", 6)
	c.Rule("C23.seal", "K1 ordering: every verbatim queued by commitStaged/commitParsed/seed follows sealAllOpen (flow unknown) or sealFlow(info.fk) on its path; the only exception is the TCP pure ACK behind payLen == 0 and the flag admission tests", 7)
	c.Rule("C23.admission", "K1: TCP seed/appendPayload are reached only with ACK set and no flag outside ACK|PSH|ECE; canAppend returns true only behind its tests; appendPayload reports the chain closed for a short (TCP: or PSH) segment and commitParsed then seals it", 21)
	c.Rule("C23.udp-length", "K1: the UDP lane parser accepts a datagram for coalescing only if its UDP length field equals the IP-derived length (else bytes of the IP payload after the datagram are dropped when it is folded into a superpacket)", 2)
	c.Rule("C23.geometry", "constants: at most 64 segments and 65535 bytes per superpacket", 4)
	c.Rule("C23.slot-state", "K11: seed initialises and appendPayload advances the slot fields the flusher and canAppend read (table)", 22)
	c.Rule("C23.hdr-cover", "K7: the byte ranges compared by the header matchers cover every IP/TCP/UDP header byte except the ones the kernel rewrites (lengths, IPv4 id, checksums, TCP seq and flags)", 4)
	c.Rule("C23.writers", "K2: the queues and slot buffers are written only by the tabled functions (or helpers called only from them)", 8)
	c.Rule("C23.key", "K11/K2: the receive path commits (out, {Epoch: hostinfo.ConnectionState.epoch, Counter: the header counter it authenticated}, the parse of out); epoch is written once from sessionEpoch.Add(1)", 5)

	if c.P.SSAPkgs[PkgPath(c23Pkg)] == nil {
		c.Unknown("anchor", c23Pkg, "package not loaded")
		return
	}
	x := &c23Ctx{c: c, env: g11NewEnv(nil), qfields: map[*types.Var]bool{}}
	for _, tf := range [][2]string{{"TCPCoalescer", "slots"}, {"UDPCoalescer", "slots"}, {"Passthrough", "slots"}, {"MultiCoalescer", "staged"}, {"coalesceSlot", "payIovs"}, {"udpSlot", "payIovs"}} {
		if f := c.Field(c23Pkg, tf[0], tf[1]); f != nil {
			x.qfields[f] = true
		}
	}
	x.all = c.moduleFuncs()
	for _, fn := range x.all {
		if pkgPathOf(fn) == PkgPath(c23Pkg) {
			x.funcs = append(x.funcs, fn)
		}
	}
	x.cons = &c23Sum{c: c, memo: map[*ssa.Function]uint8{}, busy: map[*ssa.Function]bool{}, prim: func(in ssa.Instruction) bool {
		_, _, ok := c23AppendStore(in, x.qfields)
		return ok
	}}
	x.emit = &c23Sum{c: c, memo: map[*ssa.Function]uint8{}, busy: map[*ssa.Function]bool{}, prim: func(in ssa.Instruction) bool {
		ci, ok := in.(ssa.CallInstruction)
		return ok && ci.Common().IsInvoke() && (ci.Common().Method.Name() == "Write" || ci.Common().Method.Name() == "WriteGSO")
	}}
	x.linear()
	x.stage()
	x.multiFlush()
	x.route()
	for _, l := range c23Lanes {
		x.packet(l)
		x.laneFlush(l)
		x.seal(l)
		x.admission(l)
		x.slotState(l)
	}
	x.passthrough()
	x.udpLength()
	x.hdrCover()
	x.writers()
	x.key()
}

// ---------------------------------------------------------------------------------------
// C23.linear / C23.producers

func (x *c23Ctx) linear() {
	c := x.c
	why := "a packet is lost (0) or reaches the tun twice (>=2)"
	tabled := map[*ssa.Function]bool{}
	refs := []Ref{{c23Pkg, "MultiCoalescer", "dispatch"}, {c23Pkg, "MultiCoalescer", "Commit"}, {c23Pkg, "Passthrough", "enqueue"}}
	for _, l := range c23Lanes {
		for _, n := range []string{"commitStaged", "commitParsed", "seed", "addVerbatim", "appendPayload"} {
			refs = append(refs, l.m(n))
		}
	}
	for _, r := range refs {
		fn := c.Func(r)
		if fn == nil {
			continue
		}
		tabled[fn] = true
		c.g11ExactlyOnce("C23.linear", fn, "queue-insertion", x.cons.ev, why)
	}
	// MultiCoalescer.Flush drains the stage (its loop is checked by C23.flush)
	if fn := c.funcQuiet(Ref{c23Pkg, "MultiCoalescer", "Flush"}); fn != nil {
		tabled[fn] = true
	}
	// any other producer must be a helper of the tabled ones
	var extra []string
	for _, fn := range x.funcs {
		if tabled[topFunc(fn)] || x.cons.of(fn) == g11Zero {
			continue
		}
		if !x.onlyCalledFrom(fn, tabled, 0) {
			extra = append(extra, fnName(fn))
		}
	}
	sort.Strings(extra)
	c.Check(len(extra) == 0, "C23.producers", "overlay/batch", c.P.Pos(token.NoPos), "only the tabled functions (and their helpers) queue packets", "functions outside the commit/dispatch tree queue packets for the tun: "+strings.Join(extra, ", "))
}

// onlyCalledFrom: every reference to fn in the package comes from a tabled function or from a
// helper that itself is only called from tabled functions.
func (x *c23Ctx) onlyCalledFrom(fn *ssa.Function, tabled map[*ssa.Function]bool, depth int) bool {
	o := fnObj(fn)
	if o == nil || depth > 3 {
		return false
	}
	n := 0
	for _, g := range x.all {
		found := false
		eachInstr(g, func(in ssa.Instruction) {
			var ops []*ssa.Value
			for _, op := range in.Operands(ops) {
				if op != nil && *op != nil {
					if f, ok := (*op).(*ssa.Function); ok && fnObj(f) == o {
						found = true
					}
				}
			}
		})
		if !found {
			continue
		}
		n++
		t := topFunc(g)
		if !tabled[t] && !x.onlyCalledFrom(t, tabled, depth+1) {
			return false
		}
	}
	return n > 0
}

// ---------------------------------------------------------------------------------------
// C23.packet: the packet handed down / queued is the function's own

// c23Pkt: the packet of fn: its []byte parameter, or the pkt field of its stagedPacket parameter.
func (x *c23Ctx) pktOf(fn *ssa.Function) func(ssa.Value) bool {
	fPkt := x.c.Field(c23Pkg, "stagedPacket", "pkt")
	pb := g11ParamOfType(fn, g11IsByteSlice)
	ps := g11ParamOfType(fn, g11IsNamed(c23Pkg, "stagedPacket"))
	return func(v ssa.Value) bool {
		return (pb != nil && g11IsParam(v, pb)) || (ps != nil && g11IsParamField(v, ps, fPkt))
	}
}

func (x *c23Ctx) packet(l c23Lane) {
	c := x.c
	fRaw := c.Field(c23Pkg, l.slot, "rawPkt")
	fVerb := c.Field(c23Pkg, l.slot, "verbatim")
	fHdrLen := c.Field(c23Pkg, l.parsed, "hdrLen")
	fPayLen := c.Field(c23Pkg, l.parsed, "payLen")
	fIPHL := c.Field(c23Pkg, "stagedPacket", "ipHdrLen")
	isParsed := g11IsNamed(c23Pkg, l.parsed)
	isSlot := g11IsNamed(c23Pkg, l.slot)
	// every call of a lane function that takes a packet passes the caller's own packet, and the
	// caller's own parse record / slot where it has one
	takers := []Ref{l.m("addVerbatim"), l.m("commitParsed"), l.m("seed"), l.m("appendPayload"), l.m("canAppend")}
	for _, fn := range x.funcs {
		own := x.pktOf(fn)
		pInfo := g11ParamOfType(fn, isParsed)
		for i, ci := range callsIn(fn, takers...) {
			callee := calleeObj(ci)
			cons := fmt.Sprintf("%s->%s#%d", fnName(fn), callee.Name(), i)
			sig := callee.Type().(*types.Signature)
			ok, why := true, ""
			for k, a := range callArgs(ci)[1:] {
				pt := sig.Params().At(k).Type()
				switch {
				case g11IsByteSlice(pt):
					if !own(a) {
						ok, why = false, "packet argument is "+exprString(a)
					}
				case isParsed(pt):
					if pInfo != nil && a != ssa.Value(pInfo) {
						ok, why = false, "parse record argument is not the caller's"
					}
				}
			}
			c.Check(ok, "C23.packet", cons, c.instrPos(ci), "own packet / parse record", "a lane function is handed something other than the packet being committed: "+why)
		}
	}
	// commitStaged: the record given to commitParsed is the one parseAt filled from the same packet and offset
	if fn := c.Func(l.m("commitStaged")); fn != nil {
		own := x.pktOf(fn)
		ps := g11ParamOfType(fn, g11IsNamed(c23Pkg, "stagedPacket"))
		parse := callsIn(fn, Ref{c23Pkg, l.parsed, "parseAt"})
		down := callsIn(fn, l.m("commitParsed"))
		ok := len(parse) == 1 && len(down) >= 1
		if ok {
			pa := callArgs(parse[0])
			off := pa[2]
			if cv, isC := off.(*ssa.Convert); isC {
				off = cv.X
			}
			ok = own(pa[1]) && g11IsParamField(off, ps, fIPHL)
			for _, d := range down {
				ok = ok && callArgs(d)[2] == pa[0]
			}
		}
		c.Check(ok, "C23.packet", fnName(fn)+":parse-record", c.P.Pos(fn.Pos()), "parseAt(sp.pkt, sp.ipHdrLen) fills the record passed on", "commitParsed does not receive the record parsed from this packet at the staged L4 offset")
		if ok {
			c.requireGuards("C23.packet", fn, callSinks(fn, "commitParsed", callTo(l.m("commitParsed"))), "commitParsed", gBool("parseAt ok", true, -1, callTo(Ref{c23Pkg, l.parsed, "parseAt"})))
		}
	}
	// commitParsed: the slot appended to is the slot canAppend approved
	if fn := c.Func(l.m("commitParsed")); fn != nil {
		ok := true
		var approved []ssa.Value
		for _, ci := range callsIn(fn, l.m("canAppend")) {
			approved = append(approved, callArgs(ci)[1])
		}
		for _, ci := range callsIn(fn, l.m("appendPayload")) {
			a := callArgs(ci)[1]
			ok = ok && len(approved) == 1 && a == approved[0]
		}
		c.Check(ok, "C23.packet", fnName(fn)+":same-slot", c.P.Pos(fn.Pos()), "appendPayload gets the slot canAppend tested", "the payload is appended to a slot other than the one canAppend approved")
		c.requireGuards("C23.packet", fn, callSinks(fn, "appendPayload", callTo(l.m("appendPayload"))), "appendPayload", gBool("canAppend approved", true, -1, callTo(l.m("canAppend"))))
	}
	// primitive insertions
	for _, name := range []string{"addVerbatim", "seed", "appendPayload"} {
		fn := c.Func(l.m(name))
		if fn == nil {
			continue
		}
		own := x.pktOf(fn)
		pInfo := g11ParamOfType(fn, isParsed)
		n := 0
		eachInstr(fn, func(in ssa.Instruction) {
			f, elems, isApp := c23AppendStore(in, x.qfields)
			if !isApp {
				return
			}
			cons := fmt.Sprintf("%s:%s-append#%d", fnName(fn), f.Name(), n)
			n++
			if len(elems) != 1 {
				c.Unknown("C23.packet", cons, "appended elements not recognised")
				return
			}
			e := elems[0]
			if isSlot(e.Type()) { // a slot: its rawPkt is the packet; verbatim as the function says
				var raw, verb ssa.Value
				eachInstr(fn, func(q ssa.Instruction) {
					if st, ok := q.(*ssa.Store); ok {
						if fa, ok := st.Addr.(*ssa.FieldAddr); ok && fa.X == e {
							switch fieldOfAddr(fa) {
							case fRaw:
								raw = st.Val
							case fVerb:
								verb = st.Val
							}
						}
					}
				})
				okV := true
				if name == "addVerbatim" {
					bv, isC := boolConst(verb)
					okV = verb != nil && isC && bv
				} else if verb != nil {
					bv, isC := boolConst(verb)
					okV = isC && !bv
				}
				c.Check(raw != nil && own(raw) && okV, "C23.packet", cons, c.instrPos(in), "slot.rawPkt = pkt", "the queued slot does not carry this packet (rawPkt) / the right verbatim mark")
				return
			}
			// a payload: pkt[info.hdrLen : info.hdrLen+info.payLen]
			sl, isS := e.(*ssa.Slice)
			ok := isS && own(sl.X) && sl.Low != nil && sl.High != nil && sl.Max == nil && pInfo != nil
			if ok {
				h, p := x.ld(pInfo, fHdrLen), x.ld(pInfo, fPayLen)
				ok = x.env.lin(sl.Low).equal(h) && x.env.lin(sl.High).equal(h.add(p))
			}
			c.Check(ok, "C23.packet", cons, c.instrPos(in), "pkt[hdrLen:hdrLen+payLen]", "the appended payload is not this packet's bytes after its own headers")
		})
	}
	// seed's first payload (re-initialising append)
	if fn := c.Func(l.m("seed")); fn != nil {
		own := x.pktOf(fn)
		pInfo := g11ParamOfType(fn, isParsed)
		fPay := c.Field(c23Pkg, l.slot, "payIovs")
		found, ok := false, true
		eachInstr(fn, func(in ssa.Instruction) {
			st, isSt := in.(*ssa.Store)
			if !isSt {
				return
			}
			fa, isFA := st.Addr.(*ssa.FieldAddr)
			if !isFA || fieldOfAddr(fa) != fPay {
				return
			}
			found = true
			call, isC := st.Val.(*ssa.Call)
			if !isC || builtinName(call) != "append" {
				ok = false
				return
			}
			// base: empty ([:0] of the recycled buffer, or nil)
			if b, isS := call.Call.Args[0].(*ssa.Slice); isS {
				hi, k := constInt(b.High)
				ok = ok && b.High != nil && k && hi == 0
			} else {
				ok = ok && isNilConst(call.Call.Args[0])
			}
			el := g11VarargElems(call.Call.Args[1])
			if len(el) != 1 {
				ok = false
				return
			}
			sl, isS := el[0].(*ssa.Slice)
			if !isS || !own(sl.X) || sl.Low == nil || sl.High == nil || pInfo == nil {
				ok = false
				return
			}
			h, p := x.ld(pInfo, fHdrLen), x.ld(pInfo, fPayLen)
			ok = ok && x.env.lin(sl.Low).equal(h) && x.env.lin(sl.High).equal(h.add(p))
		})
		c.Check(found && ok, "C23.packet", fnName(fn)+":first-payload", c.P.Pos(fn.Pos()), "payIovs = [pkt[hdrLen:hdrLen+payLen]]", "a new chain does not start with exactly this packet's payload (stale payloads kept, or wrong bytes)")
	}
}

// ld: the canonical atom of a load of base.f (usable when f is stable in the function).
func (x *c23Ctx) ld(base ssa.Value, f *types.Var) g11Lin {
	if f == nil {
		return g11Atom("?")
	}
	return g11Atom("ld(" + x.env.key(base) + "." + f.Name() + ")")
}

// ---------------------------------------------------------------------------------------
// C23.stage: Commit's copy, the order, the sort

func (x *c23Ctx) stage() {
	c := x.c
	sp := c.NamedType(c23Pkg, "stagedPacket")
	// Commit: the staged element
	if fn := c.Func(Ref{c23Pkg, "MultiCoalescer", "Commit"}); fn != nil && sp != nil {
		pPkt := g11ParamOfType(fn, g11IsByteSlice)
		pKey := g11ParamOfType(fn, g11IsNamed(c23Pkg, "SortKey"))
		pPP := g11ParamOfType(fn, g11IsNamed("firewall", "ParsedPacket"))
		fProto := c.Field("firewall", "Packet", "Protocol")
		fFrag := c.Field("firewall", "ParsedPacket", "FragAny")
		fIHL := c.Field("firewall", "ParsedPacket", "IPHdrLen")
		fromPP := func(v ssa.Value, f *types.Var) bool {
			if cv, ok := v.(*ssa.Convert); ok {
				v = cv.X
			}
			return loadsField(v, f) && derivesFrom(v, SliceOpts{NoAllocStores: true}, func(y ssa.Value) bool { return pPP != nil && y == ssa.Value(pPP) })
		}
		w := fieldsWrittenBy(fn, sp)
		want := map[string]func(ssa.Value) bool{
			"pkt":      func(v ssa.Value) bool { return g11IsParam(v, pPkt) }, // the packet itself
			"key":      func(v ssa.Value) bool { return g11IsParam(v, pKey) }, // its transmission-order key
			"proto":    func(v ssa.Value) bool { return fromPP(v, fProto) },   // lane selector
			"fragAny":  func(v ssa.Value) bool { return fromPP(v, fFrag) },    // fragments must never coalesce
			"ipHdrLen": func(v ssa.Value) bool { return fromPP(v, fIHL) },     // L4 offset the lane parser cross-checks
		}
		var bad []string
		for f, pred := range want {
			if v, ok := w[f]; !ok || !pred(v) {
				bad = append(bad, f)
			}
		}
		sort.Strings(bad)
		// and the element appended is that literal
		okApp := false
		eachInstr(fn, func(in ssa.Instruction) {
			if _, el, ok := c23AppendStore(in, x.qfields); ok && len(el) == 1 {
				if u, isU := el[0].(*ssa.UnOp); isU {
					if al, isA := u.X.(*ssa.Alloc); isA && allocNamed(al) != nil && allocNamed(al).Obj() == sp.Obj() {
						okApp = true
					}
				}
			}
		})
		c.Check(len(bad) == 0 && okApp, "C23.stage", "Commit:staged-fields", c.P.Pos(fn.Pos()), "pkt,key,proto,fragAny,ipHdrLen copied from the call's own arguments", "the staged record does not carry this packet's "+strings.Join(bad, ",")+" (or the record appended is not the one filled)")
	}
	// compareStaged: lexicographic (Epoch, Counter)
	if fn := c.Func(Ref{c23Pkg, "", "compareStaged"}); fn != nil && len(fn.Params) == 2 {
		rename := map[string]string{}
		for i, p := range fn.Params {
			if al := g11ParamCell(p); al != nil {
				rename[fmt.Sprintf("local%p", al)] = []string{"A", "B"}[i]
			}
			rename[p.Name()] = []string{"A", "B"}[i]
		}
		canon := func(a AVal) string {
			s := a.String()
			for k, v := range rename {
				if strings.HasPrefix(s, k+".") {
					return v + s[len(k):]
				}
			}
			return s
		}
		var diffs []string
		undec := ""
		for relE := -1; relE <= 1 && undec == ""; relE++ {
			for relC := -1; relC <= 1; relC++ {
				rel := func(a, b string) (int, bool) {
					switch {
					case a == "A.key.Epoch" && b == "B.key.Epoch":
						return relE, true
					case a == "B.key.Epoch" && b == "A.key.Epoch":
						return -relE, true
					case a == "A.key.Counter" && b == "B.key.Counter":
						return relC, true
					case a == "B.key.Counter" && b == "A.key.Counter":
						return -relC, true
					}
					return 0, false
				}
				res, err := absEval(fn, &AbsEnv{
					Oracle: func(o *typesFunc, args []AVal) (AVal, bool) {
						if o.Pkg() != nil && o.Pkg().Path() == "cmp" && o.Name() == "Compare" && len(args) == 2 {
							if r, ok := rel(canon(args[0]), canon(args[1])); ok {
								return aInt(int64(r)), true
							}
						}
						return AVal{}, false
					},
					SymCmp: func(op token.Token, a, b AVal) (bool, bool) {
						r, ok := rel(canon(a), canon(b))
						if !ok {
							return false, false
						}
						switch op {
						case token.LSS:
							return r < 0, true
						case token.LEQ:
							return r <= 0, true
						case token.GTR:
							return r > 0, true
						case token.GEQ:
							return r >= 0, true
						case token.EQL:
							return r == 0, true
						case token.NEQ:
							return r != 0, true
						}
						return false, false
					}})
				if err != "" || len(res) != 1 || !res[0].isConst() {
					undec = "left the supported fragment: " + err
					break
				}
				got, _ := constantInt64(res[0].K)
				want := relE
				if want == 0 {
					want = relC
				}
				sign := func(v int64) int {
					switch {
					case v < 0:
						return -1
					case v > 0:
						return 1
					}
					return 0
				}
				if sign(got) != want {
					diffs = append(diffs, fmt.Sprintf("epoch %s, counter %s: returns %d, lexicographic order wants sign %d", relStr(relE), relStr(relC), got, want))
				}
			}
		}
		if undec != "" {
			c.Unknown("C23.stage", "compareStaged", undec)
		} else {
			c.Check(len(diffs) == 0, "C23.stage", "compareStaged", c.P.Pos(fn.Pos()), "lexicographic (Epoch, Counter), ascending", strings.Join(diffs, "; "))
		}
	}
}

// ---------------------------------------------------------------------------------------
// C23.flush (MultiCoalescer) and C23.route

// c23RangeLoop finds the natural loop ranging over the slice held in field f of fn's receiver and
// the SSA value of the current element.
func (x *c23Ctx) rangeLoop(fn *ssa.Function, f *types.Var) (*natLoop, ssa.Value, ssa.Value) {
	lis := findRangeLoops(fn, func(v ssa.Value) bool { return loadsField(v, f) })
	if len(lis) != 1 {
		return nil, nil, nil
	}
	for _, l := range naturalLoops(fn) {
		if l.Header != lis[0].Header {
			continue
		}
		// element: load of &coll[idx] with idx computed in the header
		var elem, coll ssa.Value
		for b := range l.Body {
			for _, in := range b.Instrs {
				if u, ok := in.(*ssa.UnOp); ok && u.Op == token.MUL {
					if ia, ok := u.X.(*ssa.IndexAddr); ok && loadsField(ia.X, f) {
						if iv, ok := ia.Index.(ssa.Instruction); ok && iv.Block() == l.Header {
							if elem != nil && elem != ssa.Value(u) {
								return nil, nil, nil
							}
							elem, coll = u, ia.X
						}
					}
				}
			}
		}
		return l, elem, coll
	}
	return nil, nil, nil
}

// resetAfter: on every path from the exit of loop l to a return, field f of the receiver is
// stored an empty slice (x[:0] or nil).
func (x *c23Ctx) resetAfter(fn *ssa.Function, from *ssa.BasicBlock, cut func(ssa.Instruction) bool) bool {
	for _, r := range g11Returns(fn) {
		if pathThrough(fn, from, r, cut) {
			return false
		}
	}
	return true
}

func c23IsEmptyStore(in ssa.Instruction, f *types.Var) bool {
	st, ok := in.(*ssa.Store)
	if !ok {
		return false
	}
	fa, ok := st.Addr.(*ssa.FieldAddr)
	if !ok || fieldOfAddr(fa) != f {
		return false
	}
	if isNilConst(st.Val) {
		return true
	}
	sl, ok := st.Val.(*ssa.Slice)
	if !ok || sl.High == nil {
		return false
	}
	hi, k := constInt(sl.High)
	return k && hi == 0
}

func (x *c23Ctx) multiFlush() {
	c := x.c
	fn := c.Func(Ref{c23Pkg, "MultiCoalescer", "Flush"})
	fStaged := c.Field(c23Pkg, "MultiCoalescer", "staged")
	if fn == nil || fStaged == nil {
		return
	}
	l, elem, _ := x.rangeLoop(fn, fStaged)
	if l == nil || elem == nil {
		c.Unknown("C23.flush", "MultiCoalescer.Flush:loop", "no single range loop over m.staged: unrecognised shape")
		return
	}
	m := g11PerIterationM(l, x.cons.ev)
	c.Check(m == g11One, "C23.flush", "MultiCoalescer.Flush:dispatch-once-per-staged", c.instrPos(l.Header.Instrs[0]), "one queue insertion per staged packet", "a staged packet is queued "+g11MaskString(m)+" times per iteration of the drain loop")
	okArg := true
	for b := range l.Body {
		for _, in := range b.Instrs {
			if ci, ok := in.(ssa.CallInstruction); ok && matchFunc(calleeObj(ci), Ref{c23Pkg, "MultiCoalescer", "dispatch"}) {
				okArg = okArg && callArgs(ci)[1] == elem
			}
		}
	}
	exits := g11ExitEdges(l)
	c.Check(okArg && len(exits) == 1 && exits[0].From == l.Header, "C23.flush", "MultiCoalescer.Flush:drains-all", c.instrPos(l.Header.Instrs[0]), "dispatches the current element; the loop ends only when the stage is exhausted", "the drain loop can stop early or dispatches something other than the current staged packet: the rest of the batch is lost or a packet duplicated")
	// sorted before the loop, by compareStaged, the very stage
	okSort := false
	eachInstr(fn, func(in ssa.Instruction) {
		call, ok := in.(*ssa.Call)
		if !ok {
			return
		}
		o := calleeObj(call)
		if o == nil || o.Pkg() == nil || o.Pkg().Path() != "slices" || (o.Name() != "SortFunc" && o.Name() != "SortStableFunc") {
			return
		}
		a := call.Call.Args
		cmp, _ := a[1].(*ssa.Function)
		if mc, isMC := a[1].(*ssa.MakeClosure); isMC {
			cmp, _ = mc.Fn.(*ssa.Function)
		}
		if loadsField(a[0], fStaged) && cmp != nil && matchFunc(fnObj(cmp), Ref{c23Pkg, "", "compareStaged"}) && call.Block().Dominates(l.Header) && !l.Body[call.Block()] {
			okSort = true
		}
	})
	c.Check(okSort, "C23.stage", "MultiCoalescer.Flush:sorted-before-dispatch", c.P.Pos(fn.Pos()), "slices.SortFunc(m.staged, compareStaged) dominates the drain loop", "the stage is not sorted with compareStaged before it is dispatched: wire reorder reaches the lanes")
	if len(exits) != 1 {
		return
	}
	exit := exits[0].From.Succs[exits[0].Succ]
	c.Check(x.resetAfter(fn, exit, func(in ssa.Instruction) bool { return c23IsEmptyStore(in, fStaged) }), "C23.flush", "MultiCoalescer.Flush:stage-emptied", c.instrPos(exit.Instrs[0]), "m.staged reset on every path", "the stage is not emptied after dispatch: the next Flush would deliver this batch again")
	// every lane flushed after the loop (unless the lane does not exist); none before
	lanes := []struct {
		field string
		ref   Ref
	}{{"tcp", Ref{c23Pkg, "TCPCoalescer", "Flush"}}, {"udp", Ref{c23Pkg, "UDPCoalescer", "Flush"}}, {"pt", Ref{c23Pkg, "Passthrough", "Flush"}}}
	for _, ln := range lanes {
		f := c.Field(c23Pkg, "MultiCoalescer", ln.field)
		absent, _ := passEdges(fn, gValNil("lane absent", isFieldLoad(f)))
		isFlush := func(in ssa.Instruction) bool {
			ci, ok := in.(ssa.CallInstruction)
			return ok && matchFunc(calleeObj(ci), ln.ref) && loadsField(callArgs(ci)[0], f)
		}
		ok := true
		for _, r := range g11Returns(fn) {
			if av, _ := c.avoidsCutEdges(fn, exit.Instrs[0], r, isFlush, absent); av && !isFlush(exit.Instrs[0]) {
				ok = false
			}
		}
		early := false
		eachInstr(fn, func(in ssa.Instruction) {
			if isFlush(in) && !exit.Dominates(in.Block()) {
				early = true
			}
		})
		c.Check(ok && !early, "C23.flush", "MultiCoalescer.Flush:lane-flushed:"+ln.field, c.P.Pos(fn.Pos()), "flushed after the drain loop on every path (or lane absent)", "lane "+ln.field+" is not flushed after every staged packet was dispatched: its packets stay queued while the caller recycles their buffers")
	}
}

func (x *c23Ctx) route() {
	c := x.c
	fn := c.Func(Ref{c23Pkg, "MultiCoalescer", "dispatch"})
	fProto := c.Field(c23Pkg, "stagedPacket", "proto")
	if fn == nil || fProto == nil {
		return
	}
	ps := g11ParamOfType(fn, g11IsNamed(c23Pkg, "stagedPacket"))
	fPkt := c.Field(c23Pkg, "stagedPacket", "pkt")
	for _, l := range c23Lanes {
		k := c.ConstVal(c23Pkg, l.ipProto)
		if k == nil {
			continue
		}
		kv, _ := constantInt64(k)
		c.Check(kv == l.iana, "C23.route", "const:"+l.ipProto, "", fmt.Sprint(kv), fmt.Sprintf("%s = %d, the IANA protocol number is %d", l.ipProto, kv, l.iana))
		f := c.Field(c23Pkg, "MultiCoalescer", l.name)
		sinks := callSinks(fn, l.name+" lane", callTo(l.m("commitStaged")))
		for _, s := range sinks {
			a := callArgs(s.Instr.(ssa.CallInstruction))
			c.Check(g11IsParam(a[1], ps) && loadsField(a[0], f), "C23.packet", "dispatch->"+l.coal+".commitStaged", c.instrPos(s.Instr), "own staged packet, own lane", "dispatch hands the lane something other than the staged packet")
		}
		c.requireGuards("C23.route", fn, sinks, l.name+"-lane",
			gCmp("protocol == "+fmt.Sprint(l.iana), func(v ssa.Value) bool { return g11IsParamField(v, ps, fProto) }, func(v ssa.Value) bool { i, ok := constInt(v); return ok && i == l.iana }, mustEqual),
			gValNotNil("lane exists", isFieldLoad(f)))
	}
	for _, ci := range callsIn(fn, Ref{c23Pkg, "Passthrough", "enqueue"}) {
		c.Check(g11IsParamField(callArgs(ci)[1], ps, fPkt), "C23.packet", "dispatch->Passthrough.enqueue", c.instrPos(ci), "own packet", "dispatch enqueues something other than the staged packet")
	}
}

func (x *c23Ctx) passthrough() {
	c := x.c
	fSlots := c.Field(c23Pkg, "Passthrough", "slots")
	if fn := c.Func(Ref{c23Pkg, "Passthrough", "enqueue"}); fn != nil {
		own := x.pktOf(fn)
		ok := false
		eachInstr(fn, func(in ssa.Instruction) {
			if _, el, isApp := c23AppendStore(in, x.qfields); isApp {
				ok = len(el) == 1 && own(el[0])
			}
		})
		c.Check(ok, "C23.packet", fnName(fn)+":slots-append", c.P.Pos(fn.Pos()), "appends its packet", "the passthrough lane queues something other than the packet it was given")
	}
	fn := c.Func(Ref{c23Pkg, "Passthrough", "Flush"})
	if fn == nil || fSlots == nil {
		return
	}
	l, elem, _ := x.rangeLoop(fn, fSlots)
	if l == nil {
		c.Unknown("C23.flush", "Passthrough.Flush:loop", "no single range loop over p.slots")
		return
	}
	m := g11PerIterationM(l, x.emit.ev)
	okArg := true
	for b := range l.Body {
		for _, in := range b.Instrs {
			if x.emit.prim(in) {
				okArg = okArg && callArgs(in.(ssa.CallInstruction))[1] == elem
			}
		}
	}
	exits := g11ExitEdges(l)
	c.Check(m == g11One && okArg && len(exits) == 1 && exits[0].From == l.Header, "C23.flush", "Passthrough.Flush:write-each-once", c.instrPos(l.Header.Instrs[0]), "one Write of the current packet per iteration, no early exit", "the passthrough flush writes a queued packet "+g11MaskString(m)+" times, writes another value, or stops early")
	if len(exits) == 1 {
		exit := exits[0].From.Succs[exits[0].Succ]
		c.Check(x.resetAfter(fn, exit, func(in ssa.Instruction) bool { return c23IsEmptyStore(in, fSlots) }), "C23.flush", "Passthrough.Flush:emptied", c.instrPos(exit.Instrs[0]), "slots reset", "the passthrough queue is not emptied after the flush: the next flush writes the packets again")
	}
}

// ---------------------------------------------------------------------------------------
// C23.flush (lanes)

func (x *c23Ctx) laneFlush(l c23Lane) {
	c := x.c
	fn := c.Func(l.m("Flush"))
	fSlots := c.Field(c23Pkg, l.coal, "slots")
	fOpen := c.Field(c23Pkg, l.coal, "openSlots")
	fLast := c.Field(c23Pkg, l.coal, "lastSlot")
	fVerb := c.Field(c23Pkg, l.slot, "verbatim")
	fNum := c.Field(c23Pkg, l.slot, "numSeg")
	fRaw := c.Field(c23Pkg, l.slot, "rawPkt")
	if fn == nil || fSlots == nil || fOpen == nil || fLast == nil || fVerb == nil || fNum == nil || fRaw == nil {
		return
	}
	pre := l.coal + ".Flush:"
	lp, elem, _ := x.rangeLoop(fn, fSlots)
	if lp == nil || elem == nil {
		c.Unknown("C23.flush", pre+"loop", "no single range loop over c.slots: unrecognised shape")
		return
	}
	m := g11PerIterationM(lp, x.emit.ev)
	exits := g11ExitEdges(lp)
	c.Check(m == g11One && len(exits) == 1 && exits[0].From == lp.Header, "C23.flush", pre+"write-each-slot-once", c.instrPos(lp.Header.Instrs[0]), "one tun write per slot, no early exit", "a queued slot is written "+g11MaskString(m)+" times per iteration, or the loop can stop before the last slot")
	ofElem := func(f *types.Var) func(ssa.Value) bool {
		return func(v ssa.Value) bool {
			u, ok := v.(*ssa.UnOp)
			if !ok || u.Op != token.MUL {
				return false
			}
			fa, ok := u.X.(*ssa.FieldAddr)
			return ok && fieldOfAddr(fa) == f && fa.X == elem
		}
	}
	env := x.env
	numSeg := g11Atom("numSeg")
	envNum := func(v ssa.Value) g11Lin { // numSeg loads of the element as one atom
		if ofElem(fNum)(v) {
			return numSeg
		}
		return env.lin(v)
	}
	single := Guard{Name: "numSeg <= 1", Match: func(cd Cond, _ *ssa.If) (bool, bool) {
		if cd.Kind != CondCmp {
			return false, false
		}
		bo := cd.Base.(*ssa.BinOp)
		pos, ok := g11Cmp(bo.Op, envNum(bo.X), envNum(bo.Y))
		if !ok {
			return false, false
		}
		neg, _ := g11Cmp(negOp(bo.Op), envNum(bo.X), envNum(bo.Y))
		if cd.Neg {
			pos, neg = neg, pos
		}
		goal := []g11Cons{g11LEq(numSeg, g11Const(1))}
		if g11ImpliesAny([]g11Cons{pos}, goal) {
			return true, true
		}
		if g11ImpliesAny([]g11Cons{neg}, goal) {
			return true, false
		}
		return false, false
	}}
	var raws, gsos []Sink
	var rel []ssa.Instruction
	okArgs := true
	for b := range lp.Body {
		for _, in := range b.Instrs {
			ci, ok := in.(ssa.CallInstruction)
			if !ok {
				continue
			}
			switch {
			case x.emit.prim(in): // direct Write of the raw packet
				raws = append(raws, Sink{Instr: in, Desc: "Write(rawPkt)"})
				okArgs = okArgs && ci.Common().Method.Name() == "Write" && ofElem(fRaw)(callArgs(ci)[1])
			case matchFunc(calleeObj(ci), l.m("flushSlot")):
				gsos = append(gsos, Sink{Instr: in, Desc: "flushSlot"})
				okArgs = okArgs && callArgs(ci)[1] == elem
			case matchFunc(calleeObj(ci), l.m("release")):
				rel = append(rel, in)
				okArgs = okArgs && callArgs(ci)[1] == elem
			}
		}
	}
	c.Check(okArgs && len(raws) > 0 && len(gsos) > 0, "C23.flush", pre+"arms-use-current-slot", c.instrPos(lp.Header.Instrs[0]), "Write(s.rawPkt) | flushSlot(s) | release(s) on the current slot", "the flush arms do not operate on the slot being visited (or an arm is missing)")
	if len(raws) > 0 {
		c.requireGuards("C23.flush", fn, raws, l.name+":raw-write", gAny("slot is verbatim or never grew", gValBool("verbatim", true, ofElem(fVerb)), single))
	}
	if len(gsos) > 0 {
		c.requireGuards("C23.flush", fn, gsos, l.name+":superpacket-write", gValBool("not verbatim", false, ofElem(fVerb)))
	}
	// recycling only after the write
	back := g11BackEdges(lp)
	cf := g11CountsM(lp.Header, back, x.emit.ev)
	okRel := true
	for _, r := range rel {
		if cf.before(r)&g11Zero != 0 {
			okRel = false
		}
	}
	c.Check(okRel, "C23.flush", pre+"release-after-write", c.instrPos(lp.Header.Instrs[0]), fmt.Sprintf("%d release call(s), each after the slot's write", len(rel)), "a slot can be recycled (its payload list cleared) before it was written")
	if len(exits) != 1 {
		return
	}
	exit := exits[0].From.Succs[exits[0].Succ]
	c.Check(x.resetAfter(fn, exit, func(in ssa.Instruction) bool { return c23IsEmptyStore(in, fSlots) }), "C23.flush", pre+"slots-emptied", c.instrPos(exit.Instrs[0]), "c.slots reset", "the slot queue is not emptied after the flush: the next flush writes the packets again")
	isClearOpen := func(in ssa.Instruction) bool {
		if ci, ok := in.(ssa.CallInstruction); ok {
			if builtinName(ci) == "clear" && loadsField(ci.Common().Args[0], fOpen) {
				return true
			}
			if matchFunc(calleeObj(ci), l.m("sealAllOpen")) {
				return true
			}
		}
		if st, ok := in.(*ssa.Store); ok {
			if fa, ok := st.Addr.(*ssa.FieldAddr); ok && fieldOfAddr(fa) == fOpen {
				_, fresh := st.Val.(*ssa.MakeMap)
				return fresh
			}
		}
		return false
	}
	isNilLast := func(in ssa.Instruction) bool {
		if ci, ok := in.(ssa.CallInstruction); ok && matchFunc(calleeObj(ci), l.m("sealAllOpen")) {
			return true
		}
		st, ok := in.(*ssa.Store)
		if !ok {
			return false
		}
		fa, ok := st.Addr.(*ssa.FieldAddr)
		return ok && fieldOfAddr(fa) == fLast && isNilConst(st.Val)
	}
	c.Check(x.resetAfter(fn, exit, isClearOpen) && x.resetAfter(fn, exit, isNilLast), "C23.flush", pre+"no-open-chain-left", c.instrPos(exit.Instrs[0]), "openSlots cleared and lastSlot nil", "an open chain (openSlots / lastSlot) survives the flush: the next batch would append payloads to a slot that was already written and recycled")
	// flushSlot: one WriteGSO(hdr[:ipHdrLen], hdr[ipHdrLen:], s.payIovs, proto), hdr = s.rawPkt[:s.hdrLen]
	fs := c.Func(l.m("flushSlot"))
	if fs == nil {
		return
	}
	c.g11ExactlyOnce("C23.flush", fs, "tun-write", x.emit.ev, "the superpacket is not written / written twice")
	ps := g11ParamOfType(fs, g11IsNamed(c23Pkg, l.slot))
	fHdrLen, fIPHL, fPay := c.Field(c23Pkg, l.slot, "hdrLen"), c.Field(c23Pkg, l.slot, "ipHdrLen"), c.Field(c23Pkg, l.slot, "payIovs")
	kProto := c.ConstVal("overlay/tio", l.gsoProto)
	n := 0
	eachInstr(fs, func(in ssa.Instruction) {
		ci, ok := in.(ssa.CallInstruction)
		if !ok || !ci.Common().IsInvoke() || ci.Common().Method.Name() != "WriteGSO" || ps == nil || kProto == nil {
			return
		}
		n++
		a := callArgs(ci)
		isHdr := func(v ssa.Value) bool { // s.rawPkt[:s.hdrLen]
			sl, ok := v.(*ssa.Slice)
			return ok && g11IsParamField(sl.X, ps, fRaw) && sl.Low == nil && sl.High != nil && g11IsParamField(sl.High, ps, fHdrLen)
		}
		ip, isIP := a[1].(*ssa.Slice)
		l4, isL4 := a[2].(*ssa.Slice)
		okH := isIP && isL4 && isHdr(ip.X) && ip.X == l4.X && ip.Low == nil && ip.High != nil && g11IsParamField(ip.High, ps, fIPHL) && l4.Low != nil && g11IsParamField(l4.Low, ps, fIPHL) && l4.High == nil
		pv, _ := constantInt64(kProto)
		kv, isK := constInt(a[4])
		c.Check(okH && g11IsParamField(a[3], ps, fPay) && isK && kv == pv, "C23.flush", l.coal+".flushSlot:WriteGSO-args", c.instrPos(in), "(hdr[:ipHdrLen], hdr[ipHdrLen:], s.payIovs, "+l.gsoProto+") with hdr = s.rawPkt[:s.hdrLen]", "the superpacket is not written as the seed header split at the L4 offset plus all collected payloads with the lane's protocol")
	})
	if n == 0 {
		c.Unknown("C23.flush", l.coal+".flushSlot:WriteGSO-args", "WriteGSO call not found")
	}
}

// ---------------------------------------------------------------------------------------
// C23.seal

// sealsAlways: every path through fn calls a sealing function of the wanted kind (one level of
// helper), or fn is one.
func (x *c23Ctx) isSeal(l c23Lane, in ssa.Instruction, needAll bool, fkOK func(ssa.Value) bool, depth int) bool {
	ci, ok := in.(ssa.CallInstruction)
	if !ok {
		return false
	}
	o := calleeObj(ci)
	if matchFunc(o, l.m("sealAllOpen")) {
		return true
	}
	if matchFunc(o, l.m("sealFlow")) {
		return !needAll && fkOK(callArgs(ci)[1])
	}
	// a helper that seals on every path (arguments not tracked: only all-flow sealing counts)
	if callee := ci.Common().StaticCallee(); callee != nil && depth == 0 && callee.Blocks != nil && pkgPathOf(callee) == PkgPath(c23Pkg) {
		for _, r := range g11Returns(callee) {
			if av, _ := x.c.avoidsCut(callee, nil, r, func(q ssa.Instruction) bool { return x.isSeal(l, q, true, fkOK, 1) }); av {
				return false
			}
		}
		return len(g11Returns(callee)) > 0
	}
	return false
}

func (x *c23Ctx) seal(l c23Lane) {
	c := x.c
	fFk := c.Field(c23Pkg, l.parsed, "fk")
	fPayLen := c.Field(c23Pkg, l.parsed, "payLen")
	isParsed := g11IsNamed(c23Pkg, l.parsed)
	n := 0
	for _, name := range []string{"commitStaged", "commitParsed", "seed"} {
		fn := c.Func(l.m(name))
		if fn == nil {
			continue
		}
		pInfo := g11ParamOfType(fn, isParsed)
		fkOK := func(v ssa.Value) bool { return pInfo != nil && g11IsParamField(v, pInfo, fFk) }
		needAll := name == "commitStaged" // the flow is not known there
		// the TCP pure ACK: payLen == 0 behind the admission tests
		var exempt []Guard
		if l.name == "tcp" && name == "commitParsed" && pInfo != nil {
			exempt = append([]Guard{c.g11LinGuard("payLen == 0", x.env, g11Eq(x.ld(pInfo, fPayLen), g11Const(0)), g11LEq(x.ld(pInfo, fPayLen), g11Const(0)))}, x.tcpAdmission(pInfo)...)
		}
		for i, ci := range callsIn(fn, l.m("addVerbatim")) {
			cons := fmt.Sprintf("%s:addVerbatim#%d", fnName(fn), i)
			n++
			av, path := c.avoidsCut(fn, nil, ci, func(q ssa.Instruction) bool { return x.isSeal(l, q, needAll, fkOK, 0) })
			if !av {
				c.OK("C23.seal", cons, "sealed before on every path")
				continue
			}
			okEx := len(exempt) > 0
			for _, g := range exempt {
				if ok, _, _ := c.mustPass(fn, Sink{Instr: ci}, g); !ok {
					okEx = false
				}
			}
			if okEx {
				c.OK("C23.seal", cons, "pure ACK (payLen == 0, admissible flags): may trail later data by design")
				continue
			}
			what := "sealFlow(info.fk) / sealAllOpen"
			if needAll {
				what = "sealAllOpen (the flow is unknown here)"
			}
			c.Bad("C23.seal", cons, c.instrPos(ci), "a verbatim slot is queued without "+what+" before it on this path: an open chain created earlier can absorb later segments of the flow and emit them ahead of this packet", path...)
		}
	}
	// a helper that queues a verbatim must seal by itself (its callers' context is not analysed)
	named := map[string]bool{"commitStaged": true, "commitParsed": true, "seed": true, "addVerbatim": true}
	for _, fn := range x.funcs {
		if named[fn.Name()] && fn.Signature.Recv() != nil {
			continue
		}
		for i, ci := range callsIn(fn, l.m("addVerbatim")) {
			n++
			cons := fmt.Sprintf("%s:addVerbatim#%d", fnName(fn), i)
			if av, _ := c.avoidsCut(fn, nil, ci, func(q ssa.Instruction) bool { return x.isSeal(l, q, false, anyValue, 0) }); av {
				c.Unknown("C23.seal", cons, "a helper queues a verbatim slot without sealing first; whether its callers seal is not analysed")
			} else {
				c.OK("C23.seal", cons, "helper seals before queueing")
			}
		}
	}
	if n == 0 {
		c.Unknown("C23.seal", l.coal, "no addVerbatim call found in the commit functions")
	}
}

// tcpAdmission: the two flag tests every coalesced (and pure-ACK) segment must have passed.
func (x *c23Ctx) tcpAdmission(pInfo *ssa.Parameter) []Guard {
	c := x.c
	fFlags := c.Field(c23Pkg, "parsedTCP", "flags")
	kv := func(n string) int64 {
		if v := c.ConstVal(c23Pkg, n); v != nil {
			i, _ := constantInt64(v)
			return i
		}
		return -1
	}
	ack, allowed := kv("tcpFlagAck"), kv("tcpFlagAck")|kv("tcpFlagPsh")|kv("tcpFlagEce")
	if ack != 0x10 || allowed != 0x58 {
		c.Unknown("C23.admission", "tcp-flag-constants", "tcpFlagAck/Psh/Ece are not the TCP header bits 0x10/0x08/0x40")
	}
	// masked(v): v == flags & M (or flags &^ ^M); returns M
	masked := func(subst map[ssa.Value]ssa.Value, v ssa.Value) (int64, bool) {
		bo, ok := v.(*ssa.BinOp)
		if !ok || (bo.Op != token.AND && bo.Op != token.AND_NOT) {
			return 0, false
		}
		fl, kk := bo.X, bo.Y
		if _, isK := constInt(kk); !isK {
			fl, kk = bo.Y, bo.X
		}
		k, isK := constInt(kk)
		// fl is the flags load, or the helper parameter bound to it
		if !isK || !g11IsParamField(g11Res(subst, fl), pInfo, fFlags) {
			return 0, false
		}
		if bo.Op == token.AND_NOT {
			if kk != bo.Y {
				return 0, false
			}
			k = ^k & 0xff
		}
		return k & 0xff, true
	}
	mk := func(name string, okMask func(m int64) bool, passWhenZero bool) Guard {
		return c.g11Summ(name, func(subst map[ssa.Value]ssa.Value) Guard {
			return Guard{Name: name, Match: func(cd Cond, _ *ssa.If) (bool, bool) {
				if cd.Kind != CondCmp {
					return false, false
				}
				bo := cd.Base.(*ssa.BinOp)
				if bo.Op != token.EQL && bo.Op != token.NEQ {
					return false, false
				}
				mv, z := bo.X, bo.Y
				if k, isK := constInt(z); !isK || k != 0 {
					mv, z = bo.Y, bo.X
				}
				if k, isK := constInt(z); !isK || k != 0 {
					return false, false
				}
				m, ok := masked(subst, mv)
				if !ok || !okMask(m) {
					return false, false
				}
				condMeansZero := (bo.Op == token.EQL) != cd.Neg
				return true, condMeansZero == passWhenZero
			}}
		})
	}
	return []Guard{
		// ACK must be set: the merged header carries the seed's ACK bit for every segment
		mk("ACK set (flags & ACK != 0)", func(m int64) bool { return m == ack }, false),
		// nothing outside ACK|PSH|ECE: SYN/FIN/RST/URG/CWR would vanish inside a superpacket
		mk("no flag outside ACK|PSH|ECE", func(m int64) bool { return (^allowed&0xff)&^m == 0 }, true),
	}
}

// ---------------------------------------------------------------------------------------
// C23.admission / C23.geometry

func (x *c23Ctx) admission(l c23Lane) {
	c := x.c
	env := x.env
	isParsed, isSlot := g11IsNamed(c23Pkg, l.parsed), g11IsNamed(c23Pkg, l.slot)
	pf := func(n string) *types.Var { return c.Field(c23Pkg, l.parsed, n) }
	sf := func(n string) *types.Var { return c.Field(c23Pkg, l.slot, n) }
	kInt := func(n string) (int64, bool) {
		v := c.ConstVal(c23Pkg, n)
		if v == nil {
			return 0, false
		}
		return constantInt64(v)
	}
	maxSegs, ok1 := kInt(l.maxSegs)
	bufSize, ok2 := kInt(l.bufSize)
	if !ok1 || !ok2 {
		return
	}
	c.Check(maxSegs >= 1 && maxSegs <= 64, "C23.geometry", l.maxSegs, "", fmt.Sprint(maxSegs), fmt.Sprintf("%s = %d: the kernel accepts at most 64 segments per offloaded write", l.maxSegs, maxSegs))
	c.Check(bufSize >= 1 && bufSize <= 65535, "C23.geometry", l.bufSize, "", fmt.Sprint(bufSize), fmt.Sprintf("%s = %d: an IP packet (and a GSO write) cannot exceed 65535 bytes, the patched 16-bit length would wrap", l.bufSize, bufSize))

	// ---- TCP flag admission in front of every chain operation
	if cp := c.Func(l.m("commitParsed")); cp != nil && l.name == "tcp" {
		if pInfo := g11ParamOfType(cp, isParsed); pInfo != nil {
			sinks := callSinks(cp, "chain operation", callTo(l.m("seed"), l.m("appendPayload")))
			c.requireGuards("C23.admission", cp, sinks, "seed/appendPayload", x.tcpAdmission(pInfo)...)
		}
	}
	// ---- canAppend
	if fn := c.Func(l.m("canAppend")); fn != nil {
		pS, pI, pPkt := g11ParamOfType(fn, isSlot), g11ParamOfType(fn, isParsed), g11ParamOfType(fn, g11IsByteSlice)
		if pS == nil || pI == nil || pPkt == nil {
			c.Unknown("C23.admission", fnName(fn)+":signature", "expected one slot, one parse record and one packet parameter")
		} else {
			sl := func(n string) g11Lin { return x.ld(pS, sf(n)) }
			in := func(n string) g11Lin { return x.ld(pI, pf(n)) }
			onS := func(n string) func(ssa.Value) bool {
				return func(v ssa.Value) bool { return g11IsParamField(v, pS, sf(n)) }
			}
			onI := func(n string) func(ssa.Value) bool {
				return func(v ssa.Value) bool { return g11IsParamField(v, pI, pf(n)) }
			}
			hdrOf := func(base func(ssa.Value) bool, hi func(ssa.Value) bool) func(ssa.Value) bool {
				return func(v ssa.Value) bool {
					s, ok := v.(*ssa.Slice)
					return ok && base(s.X) && s.Low == nil && s.High != nil && hi(s.High)
				}
			}
			isPkt := func(v ssa.Value) bool { return v == ssa.Value(pPkt) }
			guards := []Guard{
				// more than maxSegs segments: the kernel rejects the write
				c.g11LinGuard("numSeg < "+l.maxSegs, env, g11LEq(sl("numSeg").add(g11Const(1)), g11Const(maxSegs))),
				// a segment longer than gso_size would be re-cut at other boundaries
				c.g11LinGuard("payLen <= gsoSize", env, g11LEq(in("payLen"), sl("gsoSize"))),
				// the 16-bit total length patched at flush must not wrap
				c.g11LinGuard("hdrLen+totalPay+payLen <= "+l.bufSize, env, g11LEq(sl("hdrLen").add(sl("totalPay")).add(in("payLen")), g11Const(bufSize))),
				// IPv4 ids are re-stamped seed+n by the kernel
				gAny("IPv6 or ipv4CanCoalesceID(seed, pkt, numSeg)", gValBool("isV6", true, onS("isV6")),
					gBool("ipv4CanCoalesceID", true, -1, CallSpec{Refs: []Ref{{c23Pkg, "", "ipv4CanCoalesceID"}}, Args: map[int]func(ssa.Value) bool{0: onS("rawPkt"), 1: isPkt, 2: onS("numSeg")}})),
				// every other header byte must be identical to the seed's
				gBool(l.hdrMatch+"(seed header, this header)", true, -1, CallSpec{Refs: []Ref{{c23Pkg, "", l.hdrMatch}}, Args: map[int]func(ssa.Value) bool{
					0: hdrOf(onS("rawPkt"), onS("hdrLen")), 1: hdrOf(isPkt, onI("hdrLen")), 2: onS("isV6"), 3: onS("ipHdrLen")}}),
			}
			if l.name == "tcp" {
				ece, _ := kInt("tcpFlagEce")
				seedFlags := func(v ssa.Value) bool { // s.rawPkt[s.ipHdrLen+13]
					u, ok := v.(*ssa.UnOp)
					if !ok || u.Op != token.MUL {
						return false
					}
					ia, ok := u.X.(*ssa.IndexAddr)
					return ok && onS("rawPkt")(ia.X) && env.lin(ia.Index).equal(sl("ipHdrLen").add(g11Const(13)))
				}
				guards = append(guards,
					// the kernel numbers the segments contiguously from the seed's seq
					gCmp("seq == nextSeq", onI("seq"), onS("nextSeq"), mustEqual),
					// flags are taken from the seed: ECE must not differ
					Guard{Name: "ECE equal to the seed's", Match: func(cd Cond, _ *ssa.If) (bool, bool) {
						if cd.Kind != CondCmp {
							return false, false
						}
						bo := cd.Base.(*ssa.BinOp)
						if bo.Op != token.EQL && bo.Op != token.NEQ {
							return false, false
						}
						mv, z := bo.X, bo.Y
						if k, isK := constInt(z); !isK || k != 0 {
							mv, z = bo.Y, bo.X
						}
						if k, isK := constInt(z); !isK || k != 0 {
							return false, false
						}
						and, ok := mv.(*ssa.BinOp)
						if !ok || and.Op != token.AND {
							return false, false
						}
						xv, kk := and.X, and.Y
						if _, isK := constInt(kk); !isK {
							xv, kk = and.Y, and.X
						}
						k, isK := constInt(kk)
						xr, isX := xv.(*ssa.BinOp)
						if !isK || k&ece == 0 || !isX || xr.Op != token.XOR {
							return false, false
						}
						if !(seedFlags(xr.X) && onI("flags")(xr.Y) || seedFlags(xr.Y) && onI("flags")(xr.X)) {
							return false, false
						}
						return true, (bo.Op == token.EQL) != cd.Neg
					}})
			}
			c.g11RequireRet("C23.admission", fn, true, "a segment that fails this test would be folded into the superpacket and come out altered after kernel segmentation", guards...)
		}
	}
	// ---- appendPayload: "closed" for a short (TCP: or PSH) segment; commitParsed seals then
	if fn := c.Func(l.m("appendPayload")); fn != nil {
		pS, pI := g11ParamOfType(fn, isSlot), g11ParamOfType(fn, isParsed)
		if pS != nil && pI != nil {
			// gsoSize/payLen are not stored by appendPayload, so their loads are stable
			guards := []Guard{c.g11LinGuard("payLen >= gsoSize (not short)", env, g11GEq(x.ld(pI, pf("payLen")), x.ld(pS, sf("gsoSize"))))}
			if l.name == "tcp" {
				psh, _ := kInt("tcpFlagPsh")
				fFlags := pf("flags")
				guards = append(guards, c.g11Summ("PSH clear", func(subst map[ssa.Value]ssa.Value) Guard {
					return Guard{Name: "PSH clear", Match: func(cd Cond, _ *ssa.If) (bool, bool) {
						if cd.Kind != CondCmp {
							return false, false
						}
						bo := cd.Base.(*ssa.BinOp)
						and, ok := bo.X.(*ssa.BinOp)
						k0, isZ := constInt(bo.Y)
						if !ok || !isZ || k0 != 0 || and.Op != token.AND || (bo.Op != token.EQL && bo.Op != token.NEQ) {
							return false, false
						}
						k, isK := constInt(and.Y)
						if !isK || k != psh || !g11IsParamField(g11Res(subst, and.X), pI, fFlags) {
							return false, false
						}
						return true, (bo.Op == token.EQL) != cd.Neg
					}}
				}))
			}
			c.g11RequireRet("C23.admission", fn, false, "the chain stays open after its last admissible segment: a later segment would follow a short one (kernel allows only the final segment to be short) or lose the PSH boundary", guards...)
		}
	}
	if cp := c.Func(l.m("commitParsed")); cp != nil {
		pInfo := g11ParamOfType(cp, isParsed)
		fFk := pf("fk")
		closed, _ := splitEdges(cp, gBool("appendPayload reported closed", true, -1, callTo(l.m("appendPayload"))))
		if len(closed) == 0 {
			if len(callsIn(cp, l.m("appendPayload"))) > 0 {
				c.Bad("C23.admission", fnName(cp)+":closed-chain-sealed", c.P.Pos(cp.Pos()), "appendPayload's \"chain closed\" result is not acted upon: a chain that took a short (or PSH) segment stays open")
			} else {
				c.Unknown("C23.admission", fnName(cp)+":closed-chain-sealed", "appendPayload is not called from commitParsed: unrecognised shape")
			}
		} else {
			ok := true
			for _, r := range g11Returns(cp) {
				for _, st := range closed {
					if pathThrough(cp, st, r, func(q ssa.Instruction) bool {
						return x.isSeal(l, q, false, func(v ssa.Value) bool { return g11IsParamField(v, pInfo, fFk) }, 0)
					}) {
						ok = false
					}
				}
			}
			c.Check(ok, "C23.admission", fnName(cp)+":closed-chain-sealed", c.P.Pos(cp.Pos()), "sealFlow(info.fk) on every path after appendPayload reported the chain closed", "a chain reported closed stays registered as open: the next segment of the flow is appended after a short/PSH segment")
		}
	}
}

// ---------------------------------------------------------------------------------------
// C23.slot-state

func (x *c23Ctx) slotState(l c23Lane) {
	c := x.c
	isParsed, isSlot := g11IsNamed(c23Pkg, l.parsed), g11IsNamed(c23Pkg, l.slot)
	pf := func(n string) *types.Var { return c.Field(c23Pkg, l.parsed, n) }
	slotT := c.NamedType(c23Pkg, l.slot)
	fkT := c.NamedType(c23Pkg, "flowKey")
	if slotT == nil || fkT == nil {
		return
	}
	if fn := c.Func(l.m("seed")); fn != nil {
		pI := g11ParamOfType(fn, isParsed)
		own := x.pktOf(fn)
		onI := func(n string) func(ssa.Value) bool {
			return func(v ssa.Value) bool { return g11IsParamField(v, pI, pf(n)) }
		}
		lin := func(want g11Lin) func(ssa.Value) bool {
			return func(v ssa.Value) bool { return x.env.lin(v).equal(want) }
		}
		in := func(n string) g11Lin { return x.ld(pI, pf(n)) }
		fIsV6 := c.Field(c23Pkg, "flowKey", "isV6")
		// field -> what the flusher / canAppend need it to be (one reason each)
		want := []struct {
			f    string
			pred func(ssa.Value) bool
			why  string
		}{
			{"rawPkt", own, "header source for canAppend, flushSlot and the single-segment write"},
			{"hdrLen", onI("hdrLen"), "where the payload starts; split point of the WriteGSO header"},
			{"ipHdrLen", onI("ipHdrLen"), "L4 offset for header patching and matching"},
			{"isV6", func(v ssa.Value) bool {
				u, ok := v.(*ssa.UnOp)
				if !ok || u.Op != token.MUL {
					return false
				}
				fa, ok := u.X.(*ssa.FieldAddr)
				if !ok || fieldOfAddr(fa) != fIsV6 {
					return false
				}
				b, ok := fa.X.(*ssa.FieldAddr)
				return ok && fieldOfAddr(b) == pf("fk") && b.X == ssa.Value(pI)
			}, "selects the header layout at flush and in the matchers"},
			{"fk", onI("fk"), "lastSlot fast path compares it: a wrong key lets another flow's segment in"},
			{"gsoSize", onI("payLen"), "segment size the kernel re-cuts at"},
			{"numSeg", func(v ssa.Value) bool { k, ok := constInt(v); return ok && k == 1 }, "segment count (raw write when still 1)"},
			{"totalPay", onI("payLen"), "total length patched into the header"},
		}
		if l.name == "tcp" {
			want = append(want, struct {
				f    string
				pred func(ssa.Value) bool
				why  string
			}{"nextSeq", func(v ssa.Value) bool {
				bo, ok := v.(*ssa.BinOp)
				if !ok || bo.Op != token.ADD {
					return false
				}
				a, b := bo.X, bo.Y
				if !onI("seq")(a) {
					a, b = b, a
				}
				if cv, isC := b.(*ssa.Convert); isC {
					b = cv.X
				}
				return onI("seq")(a) && onI("payLen")(b)
			}, "the only sequence number canAppend accepts next"})
		}
		_ = lin
		_ = in
		w := fieldsWrittenBy(fn, slotT)
		for _, e := range want {
			v, ok := w[e.f]
			c.Check(ok && e.pred(v), "C23.slot-state", fmt.Sprintf("%s:%s", fnName(fn), e.f), c.P.Pos(fn.Pos()), e.why, "seed does not set slot."+e.f+" from this packet's parse ("+e.why+")")
		}
		// a seed that cannot ride a superpacket goes verbatim: the new-slot path is behind the size test
		if bufSize := c.ConstVal(c23Pkg, l.bufSize); bufSize != nil && pI != nil {
			bs, _ := constantInt64(bufSize)
			var sinks []Sink
			eachInstr(fn, func(in ssa.Instruction) {
				if f, _, ok := c23AppendStore(in, x.qfields); ok && f.Name() == "slots" {
					sinks = append(sinks, Sink{Instr: in, Desc: "new chain"})
				}
				// or through a queueing helper (anything that queues, other than the verbatim path)
				if ci, ok := in.(ssa.CallInstruction); ok && !matchFunc(calleeObj(ci), l.m("addVerbatim")) {
					if callee := ci.Common().StaticCallee(); callee != nil && x.cons.of(callee) != g11Zero {
						sinks = append(sinks, Sink{Instr: in, Desc: "new chain"})
					}
				}
			})
			c.requireGuards("C23.admission", fn, sinks, "new-chain", c.g11LinGuard("hdrLen+payLen <= "+l.bufSize, x.env, g11LEq(in("hdrLen").add(in("payLen")), g11Const(bs))))
		}
	}
	if fn := c.Func(l.m("appendPayload")); fn != nil {
		pS, pI := g11ParamOfType(fn, isSlot), g11ParamOfType(fn, isParsed)
		sfv := func(n string) *types.Var { return c.Field(c23Pkg, l.slot, n) }
		onI := func(n string) func(ssa.Value) bool {
			return func(v ssa.Value) bool { return g11IsParamField(v, pI, pf(n)) }
		}
		// old value of the slot field + delta
		plus := func(f string, delta func(ssa.Value) bool) func(ssa.Value) bool {
			return func(v ssa.Value) bool {
				bo, ok := v.(*ssa.BinOp)
				if !ok || bo.Op != token.ADD {
					return false
				}
				a, b := bo.X, bo.Y
				if !g11IsParamField(a, pS, sfv(f)) {
					a, b = b, a
				}
				return g11IsParamField(a, pS, sfv(f)) && delta(b)
			}
		}
		want := []struct {
			f    string
			pred func(ssa.Value) bool
			why  string
		}{
			{"numSeg", plus("numSeg", func(v ssa.Value) bool { k, ok := constInt(v); return ok && k == 1 }), "segment count: selects raw write vs WriteGSO and caps the chain"},
			{"totalPay", plus("totalPay", onI("payLen")), "total length patched into the superpacket header"},
		}
		if l.name == "tcp" {
			want = append(want, struct {
				f    string
				pred func(ssa.Value) bool
				why  string
			}{"nextSeq", func(v ssa.Value) bool {
				bo, ok := v.(*ssa.BinOp)
				if !ok || bo.Op != token.ADD {
					return false
				}
				a, b := bo.X, bo.Y
				if !onI("seq")(a) {
					a, b = b, a
				}
				if cv, isC := b.(*ssa.Convert); isC {
					b = cv.X
				}
				return onI("seq")(a) && onI("payLen")(b)
			}, "the sequence number the next segment must carry"})
		}
		w := fieldsWrittenBy(fn, slotT)
		for _, e := range want {
			v, ok := w[e.f]
			// the update must happen on every path
			onAll := true
			if ok {
				for _, r := range g11Returns(fn) {
					if av, _ := c.avoidsCut(fn, nil, r, func(q ssa.Instruction) bool {
						st, isSt := q.(*ssa.Store)
						if !isSt {
							return false
						}
						fa, isFA := st.Addr.(*ssa.FieldAddr)
						return isFA && fieldOfAddr(fa) == sfv(e.f)
					}); av {
						onAll = false
					}
				}
			}
			c.Check(ok && onAll && e.pred(v), "C23.slot-state", fmt.Sprintf("%s:%s", fnName(fn), e.f), c.P.Pos(fn.Pos()), e.why, "appendPayload does not advance slot."+e.f+" by this segment on every path ("+e.why+")")
		}
	}
}

// ---------------------------------------------------------------------------------------
// C23.hdr-cover: compared byte ranges

// c23Range is [lo,hi) relative to the start of the header (rel=false) or to the L4 offset
// parameter (rel=true); hi < 0 means "to the end".
type c23Range struct {
	rel    bool
	lo, hi int64
}

// covered: the ranges whose equality is implied by fn returning true, in the isV6 == arm case.
func (x *c23Ctx) covered(fn *ssa.Function, arm bool, depth int) []c23Range {
	c := x.c
	var pa, pb, pOff *ssa.Parameter
	var pV6 *ssa.Parameter
	for _, p := range fn.Params {
		switch {
		case g11IsByteSlice(p.Type()) && pa == nil:
			pa = p
		case g11IsByteSlice(p.Type()):
			pb = p
		case types.Identical(p.Type(), types.Typ[types.Bool]):
			pV6 = p
		case c27IsInt(p.Type()):
			pOff = p
		}
	}
	if pa == nil || pb == nil {
		return nil
	}
	// the other arm's edges are infeasible
	armBlocked := map[Edge]bool{}
	if pV6 != nil {
		for _, b := range fn.Blocks {
			if ifi, ok := b.Instrs[len(b.Instrs)-1].(*ssa.If); ok {
				cd := normCond(ifi.Cond)
				if cd.Kind == CondBool && cd.Base == ssa.Value(pV6) {
					takenWhenTrue := 0
					if cd.Neg {
						takenWhenTrue = 1
					}
					if arm {
						armBlocked[Edge{b, 1 - takenWhenTrue}] = true
					} else {
						armBlocked[Edge{b, takenWhenTrue}] = true
					}
				}
			}
		}
	}
	bound := func(v ssa.Value) (bool, int64, bool) { // rel, offset
		if v == nil {
			return false, 0, true
		}
		l := x.env.lin(v)
		if k, ok := l.isConst(); ok {
			return false, k, true
		}
		if pOff != nil {
			if d, ok := l.constDiff(x.env.lin(pOff)); ok {
				return true, d, true
			}
		}
		return false, 0, false
	}
	type cand struct {
		call *ssa.Call
		rs   []c23Range
	}
	var cands []cand
	eachInstr(fn, func(in ssa.Instruction) {
		call, ok := in.(*ssa.Call)
		if !ok {
			return
		}
		o := calleeObj(call)
		if o != nil && o.Pkg() != nil && o.Pkg().Path() == "bytes" && o.Name() == "Equal" {
			sa, okA := call.Call.Args[0].(*ssa.Slice)
			sb, okB := call.Call.Args[1].(*ssa.Slice)
			if !okA || !okB {
				return
			}
			if sa.X == ssa.Value(pb) {
				sa, sb = sb, sa
			}
			if sa.X != ssa.Value(pa) || sb.X != ssa.Value(pb) {
				return
			}
			r1, lo1, k1 := bound(sa.Low)
			r2, lo2, k2 := bound(sb.Low)
			if !k1 || !k2 || r1 != r2 || lo1 != lo2 {
				return
			}
			r := c23Range{rel: r1, lo: lo1, hi: -1}
			if (sa.High == nil) != (sb.High == nil) {
				return
			}
			if sa.High != nil {
				h1r, h1, k3 := bound(sa.High)
				h2r, h2, k4 := bound(sb.High)
				if !k3 || !k4 || h1r != h2r || h1 != h2 || (h1r != r1 && !(sa.Low == nil && !r1)) {
					return
				}
				if h1r != r1 { // [0 : off+k): not a fixed range
					return
				}
				r.hi = h1
			}
			cands = append(cands, cand{call, []c23Range{r}})
			return
		}
		// a sub-matcher of the package given the very same (a, b, isV6)
		if callee := call.Call.StaticCallee(); callee != nil && depth == 0 && pkgPathOf(callee) == PkgPath(c23Pkg) && callee.Blocks != nil && len(call.Call.Args) >= 2 &&
			call.Call.Args[0] == ssa.Value(pa) && call.Call.Args[1] == ssa.Value(pb) {
			sameV6 := true
			for i, cp := range callee.Params {
				if types.Identical(cp.Type(), types.Typ[types.Bool]) && (pV6 == nil || call.Call.Args[i] != ssa.Value(pV6)) {
					sameV6 = false
				}
			}
			if sameV6 {
				c.Funcs[callee.String()] = true
				cands = append(cands, cand{call, x.covered(callee, arm, 1)})
			}
		}
	})
	var out []c23Range
	for _, cd := range cands {
		g := Guard{Name: "equal", Match: func(k Cond, _ *ssa.If) (bool, bool) {
			if k.Kind != CondBool || k.Base != ssa.Value(cd.call) {
				return false, false
			}
			return true, !k.Neg
		}}
		// wrap: treat the other arm's edges as passing (infeasible)
		gw := Guard{Name: g.Name, Match: g.Match}
		n, bad := 0, false
		for _, b := range fn.Blocks {
			ret, ok := b.Instrs[len(b.Instrs)-1].(*ssa.Return)
			if !ok {
				continue
			}
			v := retResult(ret, 0)
			type edge struct {
				val ssa.Value
				via *ssa.BasicBlock
			}
			edges := []edge{{v, nil}}
			if phi, isPhi := v.(*ssa.Phi); isPhi && phi.Block() == b {
				edges = nil
				for k, ev := range phi.Edges {
					edges = append(edges, edge{ev, b.Preds[k]})
				}
			}
			for _, ed := range edges {
				if bv, isC := boolConst(ed.val); isC && !bv {
					continue
				}
				blocked, _ := passEdges(fn, gw)
				for e := range armBlocked {
					blocked[e] = true
				}
				prev := reachable(fn.Blocks[0], blocked)
				reach := false
				if ed.via != nil {
					if _, r := prev[ed.via]; r {
						for i, su := range ed.via.Succs {
							if su == b && !blocked[Edge{ed.via, i}] {
								reach = true
							}
						}
					}
				} else {
					_, reach = prev[b]
				}
				// is this return edge feasible in this arm at all?
				armPrev := reachable(fn.Blocks[0], armBlocked)
				feasible := false
				if ed.via != nil {
					_, feasible = armPrev[ed.via]
				} else {
					_, feasible = armPrev[b]
				}
				if !feasible {
					continue
				}
				n++
				if ed.val == ssa.Value(cd.call) {
					continue // the result itself is returned
				}
				if reach {
					bad = true
				}
			}
		}
		if n > 0 && !bad {
			out = append(out, cd.rs...)
		}
	}
	return out
}

func c23Covers(have []c23Range, rel bool, lo, hi int64) bool {
	// sweep
	cur := lo
	for progress := true; progress; {
		progress = false
		for _, r := range have {
			if r.rel != rel || r.lo > cur {
				continue
			}
			if r.hi < 0 {
				return true
			}
			if r.hi > cur {
				cur = r.hi
				progress = true
			}
		}
		if hi >= 0 && cur >= hi {
			return true
		}
	}
	return hi >= 0 && cur >= hi
}

func (x *c23Ctx) hdrCover() {
	c := x.c
	type need struct {
		rel    bool
		lo, hi int64
		what   string
	}
	check := func(fnRef Ref, arm bool, armName string, needs []need) {
		fn := c.Func(fnRef)
		if fn == nil {
			return
		}
		have := x.covered(fn, arm, 0)
		var missing []string
		for _, n := range needs {
			if !c23Covers(have, n.rel, n.lo, n.hi) {
				missing = append(missing, n.what)
			}
		}
		c.Check(len(missing) == 0, "C23.hdr-cover", fnRef.Name+":"+armName, c.P.Pos(fn.Pos()), fmt.Sprintf("%d compared range(s) cover the header", len(have)), "header bytes that the kernel copies from the seed to every segment are not compared before coalescing: "+strings.Join(missing, "; "))
	}
	// IPv4 (20 bytes, no options): all but total length [2:4), id [4:6), checksum [10:12)
	v4 := []need{{false, 0, 2, "IPv4 version/IHL/DSCP/ECN [0:2)"}, {false, 6, 10, "IPv4 flags/fragment/TTL/protocol [6:10)"}, {false, 12, 20, "IPv4 addresses [12:20)"}}
	// IPv6 (40 bytes): all but payload length [4:6)
	v6 := []need{{false, 0, 4, "IPv6 version/class/flow label [0:4)"}, {false, 6, 40, "IPv6 next header/hop limit/addresses [6:40)"}}
	// TCP: all but seq [4:8), flags [13] (admission + ECE test), checksum [16:18)
	tcp := []need{{true, 0, 4, "TCP ports [0:4)"}, {true, 8, 13, "TCP ack/data offset [8:13)"}, {true, 14, 16, "TCP window [14:16)"}, {true, 18, -1, "TCP urgent pointer and options [18:)"}}
	// UDP: all but length [4:6) and checksum [6:8)
	udp := []need{{true, 0, 4, "UDP ports [0:4)"}}
	check(Ref{c23Pkg, "", "headersMatch"}, false, "ipv4+tcp", append(append([]need{}, v4...), tcp...))
	check(Ref{c23Pkg, "", "headersMatch"}, true, "ipv6+tcp", append(append([]need{}, v6...), tcp...))
	check(Ref{c23Pkg, "", "udpHeadersMatch"}, false, "ipv4+udp", append(append([]need{}, v4...), udp...))
	check(Ref{c23Pkg, "", "udpHeadersMatch"}, true, "ipv6+udp", append(append([]need{}, v6...), udp...))
}

// ---------------------------------------------------------------------------------------
// C23.writers

func (x *c23Ctx) writers() {
	c := x.c
	type ent struct {
		typ, field string
		allow      map[string]string // function -> reason
	}
	lane := func(coal, slot string) []ent {
		return []ent{
			{coal, "slots", map[string]string{"addVerbatim": "queues a verbatim slot", "seed": "queues a new chain", "Flush": "empties the queue after writing it", "New" + coal: "constructor"}},
			{slot, "payIovs", map[string]string{"seed": "first payload of a chain", "appendPayload": "further payloads", "release": "recycles the slot after its write"}},
			{slot, "rawPkt", map[string]string{"addVerbatim": "the verbatim packet", "seed": "the seed packet", "release": "recycles the slot after its write", "appendPayload": "TCP only: ORs PSH into the seed header's flag byte when the closing segment carries it"}},
		}
	}
	table := append(lane("TCPCoalescer", "coalesceSlot"), lane("UDPCoalescer", "udpSlot")...)
	table = append(table,
		ent{"Passthrough", "slots", map[string]string{"enqueue": "queues the packet", "Flush": "empties the queue after writing it", "NewPassthrough": "constructor"}},
		ent{"MultiCoalescer", "staged", map[string]string{"Commit": "stages the packet", "Flush": "sorts, drains and empties the stage", "NewMultiCoalescer": "constructor"}})
	all := x.funcs // the fields are unexported: only the package can write them
	for _, e := range table {
		f := c.Field(c23Pkg, e.typ, e.field)
		if f == nil {
			continue
		}
		tabled := map[*ssa.Function]bool{}
		for _, fn := range x.funcs {
			if _, ok := e.allow[fn.Name()]; ok {
				tabled[fn] = true
			}
		}
		var bad []string
		pos := ""
		n := 0
		for _, w := range fieldWriters(all, f) {
			if c.isTestHelperFile(w.Instr) {
				continue
			}
			// reading uses of the address that fieldWriters reports conservatively
			if w.Kind == "addr-escape" {
				if ci, ok := w.Instr.(ssa.CallInstruction); ok && (builtinName(ci) == "len" || builtinName(ci) == "cap") {
					continue
				}
			}
			n++
			top := topFunc(w.Fn)
			if tabled[top] || x.onlyCalledFrom(top, tabled, 0) {
				continue
			}
			bad = append(bad, fnName(top)+" ("+w.Kind+")")
			pos = c.instrPos(w.Instr)
		}
		sort.Strings(bad)
		if n == 0 {
			c.Unknown("C23.writers", e.typ+"."+e.field, "no writer found")
			continue
		}
		c.Check(len(bad) == 0, "C23.writers", e.typ+"."+e.field, pos, fmt.Sprintf("%d write sites, all in tabled functions", n), "written outside the tabled functions: "+strings.Join(bad, ", ")+" - a packet can be dropped from or added to the queue behind the lane logic")
	}
}

// ---------------------------------------------------------------------------------------
// C23.key: the receive path's sort key

func (x *c23Ctx) key() {
	c := x.c
	if c.P.SSAPkgs[nebulaMod] == nil {
		if os.Getenv("G11_FAST") == "" {
			c.Unknown("C23.key", "nebula", "root package not loaded")
		}
		return
	}
	commit := Ref{c23Pkg, "MultiCoalescer", "Commit"}
	fn := c.Func(Ref{"", "Interface", "handleOutsideMessagePacket"})
	fCS := c.Field("", "HostInfo", "ConnectionState")
	fEpoch := c.Field("", "ConnectionState", "epoch")
	key := c.NamedType(c23Pkg, "SortKey")
	if fn == nil || fCS == nil || fEpoch == nil || key == nil {
		return
	}
	pHI := g11ParamOfType(fn, g11IsNamed("", "HostInfo"))
	pOut := g11ParamOfType(fn, g11IsByteSlice)
	pCtr := g11ParamOfType(fn, func(t types.Type) bool { return types.Identical(t, types.Typ[types.Uint64]) })
	calls := callsIn(fn, commit)
	if len(calls) != 1 || pHI == nil || pOut == nil || pCtr == nil {
		c.Unknown("C23.key", "handleOutsideMessagePacket:Commit", "commit call / parameters not recognised")
		return
	}
	a := callArgs(calls[0])
	w := fieldsWrittenBy(fn, key)
	isEpoch := func(v ssa.Value) bool { // hostinfo.ConnectionState.epoch
		u, ok := v.(*ssa.UnOp)
		if !ok || u.Op != token.MUL {
			return false
		}
		fa, ok := u.X.(*ssa.FieldAddr)
		return ok && fieldOfAddr(fa) == fEpoch && g11IsParamField(fa.X, pHI, fCS)
	}
	keyIsLit := false
	if u, ok := a[2].(*ssa.UnOp); ok {
		if al, isA := u.X.(*ssa.Alloc); isA && allocNamed(al) != nil && allocNamed(al).Obj() == key.Obj() {
			keyIsLit = true
		}
	}
	c.Check(keyIsLit && w["Epoch"] != nil && isEpoch(w["Epoch"]) && w["Counter"] == ssa.Value(pCtr), "C23.key", "handleOutsideMessagePacket:key", c.instrPos(calls[0]), "{Epoch: hostinfo.ConnectionState.epoch, Counter: messageCounter}", "the committed sort key is not (the decrypting tunnel's epoch, the packet's message counter)")
	// the packet committed is the one parsed into the pp that is committed
	np := callsIn(fn, Ref{"", "", "newPacket"})
	okPP := len(np) == 1 && callArgs(np[0])[0] == ssa.Value(pOut) && a[1] == ssa.Value(pOut) && sameVar(callArgs(np[0])[2], a[3]) || (len(np) == 1 && exprString(callArgs(np[0])[2]) == exprString(a[3]) && callArgs(np[0])[0] == ssa.Value(pOut) && a[1] == ssa.Value(pOut))
	c.Check(okPP, "C23.key", "handleOutsideMessagePacket:parse-of-same-packet", c.instrPos(calls[0]), "Commit(out, _, pp) with pp = newPacket(out, ...)", "the parse record committed with the packet was not produced from that packet")
	c.requireGuards("C23.key", fn, callSinks(fn, "Commit", callTo(commit)), "Commit", gErrNil("newPacket ok", callTo(Ref{"", "", "newPacket"})))
	// the dispatcher passes the counter it authenticated with, and the tunnel that decrypted
	if ro := c.Func(Ref{"", "Interface", "readOutsidePackets"}); ro != nil {
		ok, n := true, 0
		for _, ci := range callsIn(ro, Ref{"", "Interface", "handleOutsideMessagePacket"}) {
			n++
			b := callArgs(ci)
			dec, idx := callOf(b[3])
			if dec == nil || idx != 0 || !matchFunc(calleeObj(dec), Ref{"", "ConnectionState", "Decrypt"}) {
				ok = false
				continue
			}
			d := callArgs(dec)
			// same tunnel, same counter expression
			okHI := false
			if u, isU := d[0].(*ssa.UnOp); isU {
				if fa, isFA := u.X.(*ssa.FieldAddr); isFA && fieldOfAddr(fa) == fCS && fa.X == b[1] {
					okHI = true
				}
			}
			ok = ok && okHI && exprString(d[2]) == exprString(b[2]) && sameBase(d[2], b[2])
		}
		c.Check(ok && n > 0, "C23.key", "readOutsidePackets:counter-and-tunnel", c.P.Pos(ro.Pos()), "the plaintext, counter and hostinfo of one Decrypt call", "the counter / tunnel handed to the commit are not the ones the packet was decrypted with: the sort key belongs to another packet")
	}
	// epoch: one writer, a fresh ordinal
	var bad []string
	okVal := false
	for _, ws := range fieldWriters(x.all, fEpoch) {
		if c.isTestHelperFile(ws.Instr) {
			continue
		}
		if fnName(topFunc(ws.Fn)) != "nebula.newConnectionStateFromResult" {
			bad = append(bad, fnName(topFunc(ws.Fn)))
			continue
		}
		if st, isSt := ws.Instr.(*ssa.Store); isSt {
			if call, _ := callOf(st.Val); call != nil {
				if o := calleeObj(call); o != nil && o.Name() == "Add" {
					gl, isG := callArgs(call)[0].(*ssa.Global)
					k, isK := constUint(callArgs(call)[1])
					okVal = isG && gl.Name() == "sessionEpoch" && isK && k == 1
				}
			}
		}
	}
	c.Check(len(bad) == 0 && okVal, "C23.key", "ConnectionState.epoch:writers", c.P.Pos(fn.Pos()), "set once to sessionEpoch.Add(1) by the constructor", "the tunnel epoch is not a write-once fresh ordinal (writers: "+strings.Join(bad, ",")+"): packets of an old and a new tunnel would interleave in the sort")
}

// sameBase: two field loads read the same object (same SSA base value).
func sameBase(a, b ssa.Value) bool {
	ba := func(v ssa.Value) ssa.Value {
		if u, ok := stripValue(v).(*ssa.UnOp); ok {
			if fa, ok := u.X.(*ssa.FieldAddr); ok {
				return fa.X
			}
		}
		return nil
	}
	return ba(a) != nil && ba(a) == ba(b)
}

func c23Canaries(c *Ctx) []Canary {
	const tcp, udp, multi, core = "overlay/batch/tcp_coalesce.go", "overlay/batch/udp_coalesce.go", "overlay/batch/multi_coalesce.go", "overlay/batch/coalesce_core.go"
	return []Canary{
		{Name: "tcp-fragment-verbatim-unsealed", File: tcp, Old: "\tif sp.fragAny {\n\t\tc.sealAllOpen()\n\t\tc.addVerbatim(sp.pkt)", New: "\tif sp.fragAny {\n\t\tc.addVerbatim(sp.pkt)", Rule: "C23.seal"},
		{Name: "udp-empty-datagram-unsealed", File: udp, Old: "\tif info.payLen == 0 {\n\t\tc.sealFlow(info.fk)\n\t\tc.addVerbatim(pkt)", New: "\tif info.payLen == 0 {\n\t\tc.addVerbatim(pkt)", Rule: "C23.seal"},
		{Name: "fin-admitted-to-chains", File: tcp, Old: "info.flags&^(tcpFlagAck|tcpFlagPsh|tcpFlagEce) != 0 {", New: "info.flags&^(tcpFlagAck|tcpFlagPsh|tcpFlagEce|0x01) != 0 {", Rule: "C23.admission"},
		{Name: "ack-bit-not-required", File: tcp, Old: "if info.flags&tcpFlagAck == 0 || info.flags&^", New: "if info.flags&^", Rule: "C23.admission"},
		{Name: "seq-gap-coalesced", File: tcp, Old: "\tif info.seq != s.nextSeq {\n\t\treturn false\n\t}\n", New: "", Rule: "C23.admission"},
		{Name: "segment-cap-off-by-one", File: tcp, Old: "if s.numSeg >= tcpCoalesceMaxSegs {", New: "if s.numSeg > tcpCoalesceMaxSegs {", Rule: "C23.admission"},
		{Name: "udp-short-segment-keeps-chain-open", File: udp, Old: "\treturn info.payLen < s.gsoSize\n", New: "\treturn false\n", Rule: "C23.admission"},
		{Name: "closed-chain-not-sealed", File: tcp, Old: "\t\t\tif c.appendPayload(open, pkt, info) {\n\t\t\t\t// Chain closed (PSH or short segment): stop extending it.\n\t\t\t\tc.sealFlow(info.fk)\n\t\t\t} else {\n\t\t\t\tc.lastSlot = open\n\t\t\t}", New: "\t\t\tc.appendPayload(open, pkt, info)\n\t\t\tc.lastSlot = open", Rule: "C23.admission"},
		{Name: "udp-v4-id-check-dropped", File: udp, Old: "\tif !s.isV6 && !ipv4CanCoalesceID(s.rawPkt, pkt, s.numSeg) {\n\t\treturn false\n\t}\n", New: "", Rule: "C23.admission"},
		{Name: "grown-slot-written-raw", File: tcp, Old: "if s.verbatim || s.numSeg == 1 {", New: "if s.verbatim || s.numSeg >= 1 {", Rule: "C23.flush"},
		{Name: "udp-slot-recycled-before-write", File: udp, Old: "\t\tvar err error\n\t\tif s.verbatim || s.numSeg == 1 {", New: "\t\tvar err error\n\t\tc.release(s)\n\t\tif s.verbatim || s.numSeg == 1 {", Rule: "C23.flush"},
		{Name: "open-chain-survives-flush", File: tcp, Old: "\tclear(c.openSlots)\n\tc.lastSlot = nil\n\n\treturn first", New: "\tclear(c.openSlots)\n\n\treturn first", Rule: "C23.flush"},
		{Name: "stage-not-emptied", File: multi, Old: "\tm.staged = m.staged[:0]\n", New: "", Rule: "C23.flush"},
		{Name: "gso-write-with-wrong-protocol", File: tcp, Old: "s.payIovs, tio.GSOProtoTCP)", New: "s.payIovs, tio.GSOProtoUDP)", Rule: "C23.flush"},
		{Name: "sort-ignores-epoch", File: multi, Old: "\tif c := cmp.Compare(a.key.Epoch, b.key.Epoch); c != 0 {\n\t\treturn c\n\t}\n", New: "", Rule: "C23.stage"},
		{Name: "sort-counter-descending", File: multi, Old: "return cmp.Compare(a.key.Counter, b.key.Counter)", New: "return cmp.Compare(b.key.Counter, a.key.Counter)", Rule: "C23.stage"},
		{Name: "udp-routed-to-tcp-lane", File: multi, Old: "\tcase ipProtoUDP:\n\t\tif m.udp != nil {\n\t\t\treturn m.udp.commitStaged(sp)", New: "\tcase ipProtoUDP:\n\t\tif m.tcp != nil {\n\t\t\treturn m.tcp.commitStaged(sp)", Rule: "C23.route"},
		{Name: "pure-ack-queued-twice", File: tcp, Old: "\t\tc.addVerbatim(pkt)\n\t\treturn nil\n\t}\n\n\t// Cached-slot fast path.", New: "\t\tc.addVerbatim(pkt)\n\t}\n\n\t// Cached-slot fast path.", Rule: "C23.linear"},
		{Name: "oversize-seed-dropped", File: tcp, Old: "\t\tc.sealFlow(info.fk)\n\t\tc.addVerbatim(pkt)\n\t\treturn\n\t}\n\ts := c.take()", New: "\t\tc.sealFlow(info.fk)\n\t\treturn\n\t}\n\ts := c.take()", Rule: "C23.linear"},
		{Name: "ttl-and-protocol-not-compared", File: core, Old: "bytes.Equal(a[6:10], b[6:10])", New: "bytes.Equal(a[6:8], b[6:8])", Rule: "C23.hdr-cover"},
		{Name: "udp-total-not-advanced", File: udp, Old: "\ts.totalPay += info.payLen\n\treturn info.payLen < s.gsoSize", New: "\treturn info.payLen < s.gsoSize", Rule: "C23.slot-state"},
		{Name: "gso-size-from-header-length", File: tcp, Old: "s.gsoSize = info.payLen", New: "s.gsoSize = info.hdrLen", Rule: "C23.slot-state"},
		{Name: "appended-payload-runs-to-buffer-end", File: tcp, Old: "s.payIovs = append(s.payIovs, pkt[info.hdrLen:info.hdrLen+info.payLen])", New: "s.payIovs = append(s.payIovs, pkt[info.hdrLen:])", Rule: "C23.packet"},
		{Name: "second-writer-pops-a-slot", File: tcp, Old: "func (c *TCPCoalescer) take() *coalesceSlot {", New: "func (c *TCPCoalescer) dropLast() {\n\tif n := len(c.slots); n > 0 {\n\t\tc.slots = c.slots[:n-1]\n\t}\n}\n\nfunc (c *TCPCoalescer) take() *coalesceSlot {", Rule: "C23.writers"},
		{Name: "sort-key-fields-swapped", File: "outside.go", Old: "batch.SortKey{Epoch: hostinfo.ConnectionState.epoch, Counter: messageCounter}", New: "batch.SortKey{Epoch: messageCounter, Counter: hostinfo.ConnectionState.epoch}", Rule: "C23.key"},
	}
}

// ---------------------------------------------------------------------------------------
// C23.udp-length: what parseTail calls the payload is the whole IP payload

func (x *c23Ctx) udpLength() {
	c := x.c
	fn := c.Func(Ref{c23Pkg, "parsedUDP", "parseTail"})
	fPay := c.Field(c23Pkg, "parsedUDP", "payLen")
	if fn == nil || fPay == nil {
		return
	}
	pPkt := g11ParamOfType(fn, g11IsByteSlice)
	pOff := g11ParamOfType(fn, c27IsInt)
	var stored ssa.Value
	n := 0
	eachInstr(fn, func(in ssa.Instruction) {
		if st, ok := in.(*ssa.Store); ok {
			if fa, ok := st.Addr.(*ssa.FieldAddr); ok && fieldOfAddr(fa) == fPay {
				stored = st.Val
				n++
			}
		}
	})
	if pPkt == nil || pOff == nil || n != 1 {
		c.Unknown("C23.udp-length", "parsedUDP.parseTail", "payLen store / parameters not recognised")
		return
	}
	env := x.env
	udpLen := env.lin(stored).add(g11Const(8)) // header + payload as the lane will use it
	ipLen := g11Atom("len(" + env.key(pPkt) + ")").sub(env.lin(pOff))
	if udpLen.equal(ipLen) {
		c.OK("C23.udp-length", "parsedUDP.parseTail:payload-is-ip-payload", "payLen is derived from the IP length")
		c.OK("C23.udp-length", "parsedUDP.parseTail:payload-is-ip-payload#2", "payLen is derived from the IP length")
		return
	}
	c.g11RequireRet("C23.udp-length", fn, true, "a datagram whose UDP length differs from the IP payload length is coalesced with payLen taken from the UDP field: the IP payload bytes beyond it are not carried into the superpacket (kernel GRO refuses such datagrams)",
		c.g11LinGuard("UDP length <= IP payload length", env, g11LEq(udpLen, ipLen)),
		c.g11LinGuard("UDP length >= IP payload length", env, g11GEq(udpLen, ipLen)))
}
