package main

import (
	"fmt"
	"go/token"
	"go/types"
	"sort"

	"golang.org/x/tools/go/ssa"
)

func init() {
	register(&Property{
		ID: "C45", Title: "SSH debug file paths stay inside the sandbox",
		Patterns:  []string{"."},
		Technique: "CFG guard reachability on sshSanitizeFilePath (every sandboxed success return lies behind HasPrefix(returned value, sandbox+separator), in line or in a one-level helper), provenance of the returned value (a filepath.Clean/Join/Abs result, the very value tested), rootedness of the sandbox operand, sink rule on every os file function reachable from the SSH command table, inter-procedural origin of the sandbox argument",
		LevelText: "Structural necessary conditions on all paths: with a sandbox configured, sshSanitizeFilePath returns success only across the true edge of strings.HasPrefix(p, S+separator) where p is the returned value itself, p is a lexically cleaned path and S is the (cleaned) sandbox directory; S is lexically absolute; every path handed to an os file function by a function reachable from the SSH command table is the result of sshSanitizeFilePath (or a constant); every sshSanitizeFilePath call receives the one sshd.sandbox_dir value read from the configuration.",
		LevelNote: "Not decided: symlinks and the file system (the property is lexical); the behaviour of filepath.Clean/Join/HasPrefix themselves; non-default GOOS (Windows volume names); file functions outside package os or reached only through interfaces; that accepted paths are *all* paths inside the sandbox (a sandbox of \"/\" or \".\" refuses everything: stricter, not unsafe).",
		Explanation: "K1 with per-return value identity and one-level callee summaries on sshSanitizeFilePath, K11 on the returned value and the sandbox operand, K11 sink rule over the functions reachable from attachCommands, origin tracing of the sandbox argument through parameters and closure captures",
		Run:       runC45,
		Canaries: func(c *Ctx) []Canary {
			return g10FilterCanaries([]Canary{
				{Name: "prefix-without-separator", File: "ssh.go", Old: "if !strings.HasPrefix(cleaned, cleanedSandbox+string(filepath.Separator)) {", New: "if !strings.HasPrefix(cleaned, cleanedSandbox) {", Rule: "C45.inside"},
				{Name: "returns-uncleaned-input", File: "ssh.go", Old: "\treturn cleaned, nil\n}", New: "\treturn filePath, nil\n}", Rule: "C45.inside"},
				{Name: "absolute-paths-bypass", File: "ssh.go", Old: "\tif sandboxDir == \"\" {\n\t\treturn filePath, nil\n\t}", New: "\tif sandboxDir == \"\" || filepath.IsAbs(filePath) {\n\t\treturn filePath, nil\n\t}", Rule: "C45.inside"},
				{Name: "prefix-arguments-swapped", File: "ssh.go", Old: "strings.HasPrefix(cleaned, cleanedSandbox+string(filepath.Separator))", New: "strings.HasPrefix(cleanedSandbox+string(filepath.Separator), cleaned)", Rule: "C45.inside"},
				{Name: "prefix-test-inverted", File: "ssh.go", Old: "if !strings.HasPrefix(cleaned, cleanedSandbox+string(filepath.Separator)) {", New: "if strings.HasPrefix(cleaned, cleanedSandbox+string(filepath.Separator)) {", Rule: "C45.inside"},
				{Name: "tested-path-not-cleaned", File: "ssh.go", Old: "\tcleaned := filepath.Clean(filePath)\n", New: "\tcleaned := filePath\n", Rule: "C45.clean"},
				{Name: "heap-profile-skips-sanitizer", File: "ssh.go", Old: "\tfilePath, err := sshSanitizeFilePath(sandboxDir, a[0])\n\tif err != nil {\n\t\treturn w.WriteLine(err.Error())\n\t}\n\n\tfile, err := os.Create(filePath)\n\tif err != nil {\n\t\terr = w.WriteLine(fmt.Sprintf(\"Unable to create profile file: %s\", err))\n\t\treturn err\n\t}\n\n\terr = pprof.WriteHeapProfile(file)", New: "\t_, err := sshSanitizeFilePath(sandboxDir, a[0])\n\tif err != nil {\n\t\treturn w.WriteLine(err.Error())\n\t}\n\n\tfile, err := os.Create(a[0])\n\tif err != nil {\n\t\terr = w.WriteLine(fmt.Sprintf(\"Unable to create profile file: %s\", err))\n\t\treturn err\n\t}\n\n\terr = pprof.WriteHeapProfile(file)", Rule: "C45.sinks"},
			{Name: "new-command-writes-raw-path", File: "ssh.go", Old: "func sshVersion(ifce *Interface, fs any, a []string, w sshd.StringWriter) error {\n", New: "func sshVersion(ifce *Interface, fs any, a []string, w sshd.StringWriter) error {\n\tif len(a) > 0 {\n\t\t_ = os.WriteFile(a[0], []byte(ifce.version), 0o600)\n\t}\n", Rule: "C45.sinks"},
				{Name: "mutex-profile-sandbox-disabled", File: "ssh.go", Old: "return sshGetMutexProfile(sandboxDir, fs, a, w)", New: "return sshGetMutexProfile(\"\", fs, a, w)", Rule: "C45.sandbox-arg"},
			})
		},
	})
}

// os functions that take file system paths: every string argument is a path (one reason each)
var c45OsPathFuncs = map[string]string{
	"Create": "creates/truncates the named file", "OpenFile": "opens/creates the named file", "Open": "opens the named file",
	"WriteFile": "writes the named file", "ReadFile": "reads the named file", "Mkdir": "creates the named directory",
	"MkdirAll": "creates the named directories", "Remove": "removes the named file", "RemoveAll": "removes the named tree",
	"Rename": "moves a file (both names are paths)", "Truncate": "truncates the named file", "Symlink": "creates a link (both names are paths)",
	"Link": "creates a link (both names are paths)", "CreateTemp": "creates a file in the named directory", "MkdirTemp": "creates a directory in the named directory",
	"Chmod": "changes the named file", "Chown": "changes the named file", "ReadDir": "lists the named directory",
}

func runC45(c *Ctx) {
	c.Rule("C45.inside", "K1: every success return of sshSanitizeFilePath is behind `sandboxDir == \"\"` (no sandbox configured) or behind the true edge of strings.HasPrefix(p, S+separator) with p the value returned and S the sandbox directory (cleaned)", 2)
	c.Rule("C45.clean", "K11: the value returned (and prefix-tested) under a sandbox is a filepath.Clean / Join / Abs result", 1)
	c.Rule("C45.rooted", "K1/K11: the sandbox operand of the prefix test is lexically absolute (filepath.Abs result, or filepath.IsAbs tested true on the way)", 1)
	c.Rule("C45.sinks", "K11: every path argument of an os file function in a function reachable from the SSH command table is a sshSanitizeFilePath result (or a constant) on every incoming edge", 3)
	c.Rule("C45.sandbox-arg", "K11: the sandbox argument of every sshSanitizeFilePath call originates, through parameters and closure captures, from one and the same config GetString read", 3)

	sanRef := Ref{"", "", "sshSanitizeFilePath"}
	fpClean, fpJoin, fpAbs, fpIsAbs := Ref{"path/filepath", "", "Clean"}, Ref{"path/filepath", "", "Join"}, Ref{"path/filepath", "", "Abs"}, Ref{"path/filepath", "", "IsAbs"}
	sep := ""
	if v := c.ConstVal("path/filepath", "Separator"); v != nil {
		if r, ok := constantInt64(v); ok {
			sep = string(rune(r))
		}
	}
	fn := c.Func(sanRef)
	if fn != nil && sep != "" {
		sig := fn.Signature
		if sig.Params().Len() != 2 || sig.Results().Len() != 2 || !isErrorType(sig.Results().At(1).Type()) {
			c.Unknown("C45.inside", "sshSanitizeFilePath", "signature is no longer (sandboxDir, filePath string) (string, error): cannot decide")
			return
		}
		pSandbox := fn.Params[0]
		// S: the sandbox directory, possibly cleaned / made absolute. rooted: an Abs is in the chain.
		var sandboxVal func(r g10Res, v ssa.Value, needAbs bool) bool
		sandboxVal = func(r g10Res, v ssa.Value, needAbs bool) bool {
			x := g10Val(r, v)
			if x == pSandbox {
				return !needAbs
			}
			if call := g10CallResult(x, -1, fpClean); call != nil {
				return sandboxVal(r, call.Call.Args[0], needAbs)
			}
			if call := g10CallResult(x, 0, fpAbs); call != nil {
				return sandboxVal(r, call.Call.Args[0], false)
			}
			return false
		}
		empty := func(r g10Res) Guard {
			isSb := func(v ssa.Value) bool { return g10Val(r, v) == pSandbox }
			return gAny("sandboxDir == \"\"",
				gCmp("sandboxDir == \"\"", isSb, func(v ssa.Value) bool { return g10IsStringConst(v, "") }, mustEqual),
				g10LenGuard("len(sandboxDir) == 0", isSb, true))
		}
		prefix := func(r g10Res, ret ssa.Value, needAbs bool) Guard {
			return Guard{Name: "HasPrefix(returned, sandbox+separator)", Match: func(cd Cond, _ *ssa.If) (bool, bool) {
				if cd.Kind != CondBool {
					return false, false
				}
				call := g10CallResult(cd.Base, -1, Ref{"strings", "", "HasPrefix"})
				if call == nil || g10Val(r, call.Call.Args[0]) != stripValue(ret) {
					return false, false
				}
				bo, ok := g10Val(r, call.Call.Args[1]).(*ssa.BinOp)
				if !ok || bo.Op != token.ADD || !sandboxVal(r, bo.X, needAbs) || !g10IsStringConst(g10Val(r, bo.Y), sep) {
					return false, false
				}
				return true, !cd.Neg
			}}
		}
		isAbs := func(r g10Res) Guard {
			return Guard{Name: "filepath.IsAbs(sandbox)", Match: func(cd Cond, _ *ssa.If) (bool, bool) {
				if cd.Kind != CondBool {
					return false, false
				}
				call := g10CallResult(cd.Base, -1, fpIsAbs)
				if call == nil || !sandboxVal(r, call.Call.Args[0], false) {
					return false, false
				}
				return true, !cd.Neg
			}}
		}
		for i, s := range g10ValueSinks(fn, 1, 0) {
			cons := fmt.Sprintf("sshSanitizeFilePath:success#%d", i)
			ret := s.Val
			if ok, n, _ := c.mustPass(fn, s.Sink, c.g10Summ("no sandbox", empty)); ok && n > 0 {
				c.OK("C45.inside", cons, "returned only when no sandbox directory is configured")
				continue
			}
			inside := c.g10Summ("sandboxDir == \"\" or HasPrefix(returned, sandbox+separator)", func(r g10Res) Guard {
				return gAny("", empty(r), prefix(r, ret, false))
			})
			if ok, n, path := c.mustPass(fn, s.Sink, inside); !ok {
				c.Bad("C45.inside", cons, c.instrPos(s.Instr), fmt.Sprintf("with a sandbox configured, success returning %s is reachable without strings.HasPrefix(<that value>, <sandbox>+%q) having been true (%d matching tests): a path outside the sandbox (or a same-prefix sibling) is accepted", exprString(ret), sep, n), path...)
			} else {
				c.OK("C45.inside", cons, "behind the separator-terminated prefix test on the returned value")
			}
			// the tested-and-returned value is lexically clean
			cl := g10CallResult(ret, -1, fpClean, fpJoin)
			if cl == nil {
				cl = g10CallResult(ret, 0, fpAbs)
			}
			c.Check(cl != nil, "C45.clean", cons, c.instrPos(s.Instr), "filepath.Clean/Join/Abs result", "the value tested against the sandbox prefix and returned ("+exprString(ret)+") is not a lexically cleaned path: `<sandbox>/../x` has the sandbox prefix and resolves outside it")
			// the sandbox operand is absolute
			rootedA := c.g10Summ("", func(r g10Res) Guard { return gAny("", empty(r), prefix(r, ret, true)) })
			rootedB := c.g10Summ("", func(r g10Res) Guard { return gAny("", empty(r), isAbs(r)) })
			okA, _, _ := c.mustPass(fn, s.Sink, rootedA)
			okB, _, path := c.mustPass(fn, s.Sink, rootedB)
			if okA || okB {
				c.OK("C45.rooted", cons, "sandbox operand is absolute")
			} else {
				c.Bad("C45.rooted", cons, c.instrPos(s.Instr), "the sandbox directory compared against is neither a filepath.Abs result nor tested with filepath.IsAbs: for a relative sandbox made of `..` elements (sshd.sandbox_dir: \"..\") the cleaned input `../../x` has the prefix `../` and is accepted although it lies outside the sandbox", path...)
			}
		}
	}

	// ---- sinks: os file functions reachable from the SSH command table
	attach := c.Func(Ref{"", "", "attachCommands"})
	if attach != nil {
		reach := g10Reach([]*ssa.Function{attach}, func(f *ssa.Function) bool { return pkgPathOf(f) == nebulaMod })
		sort.Slice(reach, func(i, j int) bool { return reach[i].String() < reach[j].String() })
		sanitized := func(v ssa.Value) bool {
			if _, isC := stripValue(v).(*ssa.Const); isC {
				return true // not attacker supplied
			}
			return g10CallResult(v, 0, sanRef) != nil
		}
		for _, f := range reach {
			if c.isTestFile(f.Pos()) {
				continue
			}
			ord := map[string]int{}
			eachInstr(f, func(in ssa.Instruction) {
				ci, ok := in.(ssa.CallInstruction)
				if !ok {
					return
				}
				o := calleeObj(ci)
				if o == nil || o.Pkg() == nil || o.Pkg().Path() != "os" || c45OsPathFuncs[o.Name()] == "" || o.Type().(*types.Signature).Recv() != nil {
					return
				}
				k := ord[o.Name()]
				ord[o.Name()]++
				for ai, a := range ci.Common().Args {
					if b, isB := a.Type().Underlying().(*types.Basic); !isB || b.Kind() != types.String {
						continue
					}
					cons := fmt.Sprintf("%s:os.%s#%d.arg%d", fnName(f), o.Name(), k, ai)
					ok, why := allEdges(g10Load(a), sanitized)
					c.Check(ok, "C45.sinks", cons, c.instrPos(in), "path is a sshSanitizeFilePath result", "os."+o.Name()+" ("+c45OsPathFuncs[o.Name()]+") in a function reachable from the SSH command table receives a path that is not the result of sshSanitizeFilePath ("+why+"): the sandbox is bypassed")
				}
			})
		}
	}

	// ---- the sandbox handed to the sanitizer is the configured one, at every site
	tr := c.g10NewTracer()
	var first ssa.Value
	for _, f := range tr.funcs {
		if c.isTestFile(f.Pos()) {
			continue
		}
		for k, ci := range callsIn(f, sanRef) {
			cons := fmt.Sprintf("%s:sshSanitizeFilePath#%d", fnName(f), k)
			bad := ""
			for _, o := range tr.origins(ci.Common().Args[0]) {
				call := g10CallResult(o, -1, Ref{"config", "C", "GetString"})
				switch {
				case call == nil:
					bad = "origin " + exprString(o) + " is not a configuration read"
				case first == nil:
					first = call
				case first != ssa.Value(call):
					bad = "a different configuration read than the other call sites"
				}
			}
			c.Check(bad == "", "C45.sandbox-arg", cons, c.instrPos(ci), "the one configured sandbox directory", "the sandbox argument of this sshSanitizeFilePath call does not come (only) from the configured sshd.sandbox_dir ("+bad+"): an empty or different sandbox disables the containment for this command")
		}
	}
}

