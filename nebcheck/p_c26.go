package main

import (
	"fmt"
	"go/token"
	"go/types"
	"sort"

	"golang.org/x/tools/go/ssa"
)

func init() {
	register(&Property{
		ID: "C26", Title: "Batched underlay sends survive kernel faults without duplication",
		Patterns:    []string{"./udp"},
		Technique:   "loop-carried cursor analysis on the SSA phis of WriteBatch (drain cursor, packing cursors, entry counter), per-iteration CFG guard reachability with linear-inequality entailment, must-pass-through of the per-entry header writes, writer/reader agreement of the entry ledger, accumulator-version analysis of the returned count, K1 guards on planRun's run extension, K5 path counts in writeEntryCmsg, retry discipline of the sendmmsg wrapper",
		LevelText:   "Structural necessary conditions on all paths of batchWriter.WriteBatch, planRun, writeEntryCmsg, sendmmsg and prepareWriteMessages: the kernel is handed exactly the window [cursor, packed) of the entries prepared in this chunk; every way round the drain loop advances the cursor by at least one and by at least the count the kernel accepted (no resubmission, progress); a rewind of the packet cursor depends on the drain cursor, is the ledger's run start of the first unaccepted entry, is taken only when nothing was accepted and at most once (GSO is switched off first); the ledger is written only at entry commit with (run end, run length) under the entry index; the returned count is the current version of one accumulator that grows only by the ledger's packet count of each accepted entry, once per send; each committed entry has its iovecs, iovec count, address, address length and control fields written from the same run (index agreement bufs[i+k] <-> iovs[v+k], addrs[i], names[e], msgs[e]) and both cursors advance by exactly the run length; a run is extended only by a non-empty datagram of the same destination that is not longer than the first, within the byte and segment limits, and never after a shorter one; a multi-datagram entry always carries the first datagram's size as UDP_SEGMENT and a single one never carries a control message; the syscall wrapper resubmits only after a call that failed entirely.",
		LevelNote:   "Not decided: integer wrap-around (entailment is over ideal integers); the kernel's sendmmsg/UDP_SEGMENT semantics (trusted as documented in the file); that the outer chunk loop makes progress when no entry could be packed; index-in-range of the scratch arrays (a panic, not a duplicate); that callers pass same-destination datagrams contiguously; the classification of errno values (which rejections disable GSO); the non-linux / android / e2e_testing writers. The count rule decides which quantity is accumulated and returned, not its numeric value under a concrete fault script.",
		Explanation: "cursor phis split into initial and back-edge values (g13Induction); per back edge the step is compared as a linear form with the kernel's count and discharged by per-iteration guard reachability (g13EdgeBehind + g11LinGuard); commit-path writes by avoidsCut; ledger by K2 + K7; count by accumulator web + nearest dominating version; planRun by K1 guards on the increment of the run-length phi",
		Run:         runC26,
		Canaries: func(c *Ctx) []Canary {
			f := "udp/udp_linux_writebatch.go"
			return []Canary{
				{Name: "partial-send-not-advanced", File: f, Old: "\t\t\t\tdone += sent\n", New: "\t\t\t\tdone += sent - 1\n", Rule: "C26.drain"},
				{Name: "rejected-entry-retried-forever", File: f, Old: "\t\t\tdone++\n", New: "", Rule: "C26.drain"},
				{Name: "window-includes-stale-entries", File: f, Old: "w.sendFn(done, entry-done)", New: "w.sendFn(done, len(w.msgs)-done)", Rule: "C26.drain"},
				{Name: "replay-rewinds-to-chunk-start", File: f, Old: "i = w.entryEnd[done] - w.entryPkts[done]\n", New: "i = w.entryEnd[0] - w.entryPkts[0]\n", Rule: "C26.drain"},
				{Name: "replay-after-partial-accept", File: f, Old: "\t\t\tif sent > 0 {\n", New: "\t\t\tif sent > 0 && !errors.Is(serr, unix.EIO) {\n", Rule: "C26.drain"},
				{Name: "count-entries-not-packets", File: f, Old: "written += w.entryPkts[e]", New: "written++", Rule: "C26.count"},
				{Name: "report-batch-size", File: f, Old: "\t}\n\treturn written, nil\n}", New: "\t}\n\treturn len(bufs), nil\n}", Rule: "C26.count"},
				{Name: "ledger-run-length-one", File: f, Old: "w.entryPkts[entry] = runLen", New: "w.entryPkts[entry] = 1", Rule: "C26.ledger"},
				{Name: "packet-cursor-steps-one", File: f, Old: "w.writeEntryCmsg(entry, runLen, segSize)\n\n\t\t\ti += runLen", New: "w.writeEntryCmsg(entry, runLen, segSize)\n\n\t\t\ti++", Rule: "C26.entry"},
				{Name: "iov-pointer-by-entry", File: f, Old: "hdr.Iov = &w.iovs[iovIdx]", New: "hdr.Iov = &w.iovs[entry]", Rule: "C26.entry"},
				{Name: "address-by-entry-index", File: f, Old: "writeSockaddr(w.names[entry], addrs[i], w.isV4)", New: "writeSockaddr(w.names[entry], addrs[entry], w.isV4)", Rule: "C26.entry"},
				{Name: "iovlen-not-written", File: f, Old: "\t\t\tsetMsgIovlen(hdr, runLen)\n", New: "", Rule: "C26.entry"},
				{Name: "pair-sent-without-segment-size", File: f, Old: "\tif runLen >= 2 {\n\t\tdataOff", New: "\tif runLen > 2 {\n\t\tdataOff", Rule: "C26.cmsg"},
				{Name: "stale-control-on-single", File: f, Old: "\t\thdr.Control = nil\n", New: "", Rule: "C26.cmsg"},
				{Name: "run-mixes-destinations", File: f, Old: "if addrs[start+runLen] != dst {", New: "if addrs[start+runLen].Port() != dst.Port() {", Rule: "C26.plan"},
				{Name: "short-packet-in-the-middle", File: f, Old: "\t\tif nextLen < segSize {\n\t\t\t// A short packet must be the last in the run.\n\t\t\tbreak\n\t\t}\n", New: "", Rule: "C26.plan"},
				{Name: "byte-limit-dropped", File: f, Old: "\t\tif total+nextLen > maxGSOBytes {\n\t\t\tbreak\n\t\t}\n", New: "", Rule: "C26.plan"},
				{Name: "retry-after-partial-success", File: f, Old: "case errno == unix.EINTR: //similar", New: "case errno == unix.EINTR || int(r1) < n: //similar", Rule: "C26.syscall"},
			}
		},
	})
}

var (
	c26BW         = func(n string) Ref { return Ref{"udp", "batchWriter", n} }
	c26UdpFn      = func(n string) Ref { return Ref{"udp", "", n} }
	c26KnownCalls = []Ref{c26BW("planRun"), c26BW("writeEntryCmsg"), c26UdpFn("writeSockaddr"), c26UdpFn("setMsgIovlen"), c26UdpFn("setIovLen"), c26UdpFn("setMsgControllen"), c26UdpFn("recordCapability")}
)

// c26Shape is WriteBatch resolved into its loops and loop-carried cursors.
type c26Shape struct {
	fn             *ssa.Function
	env            *g11Env
	loops          []*natLoop
	w, bufs, addrs *ssa.Parameter
	send           *ssa.Call // the call through the sendFn field
	sent           ssa.Value // its first result
	L              *natLoop  // drain loop
	cur            *g13Ind   // drain cursor (first argument of sendFn)
	plan           *ssa.Call // the planRun call
	R, S           ssa.Value // run length, segment size
	P              *natLoop  // packing loop
	iP, vP, eP     *g13Ind   // packet cursor, iovec cursor, entry counter
	O              *natLoop  // chunk loop
	iO             *g13Ind   // packet cursor across chunks
	f              map[string]*types.Var
}

func (s *c26Shape) fld(n string) *types.Var { return s.f[n] }

func runC26(c *Ctx) {
	c.Rule("C26.drain", "drain loop of WriteBatch: sendFn gets (cursor, packed-cursor) and the loop runs exactly while cursor < packed, from 0; every back edge advances the cursor by >= 1 and by >= the accepted count, behind the tests that entail it; a packet-cursor rewind depends on the drain cursor, equals entryEnd[cursor]-entryPkts[cursor], is behind sent <= 0 and behind gsoSupported being true then stored false; otherwise the next chunk resumes at the packing cursor", 11)
	c.Rule("C26.ledger", "K2+K7: entryEnd / entryPkts elements are written only at entry commit in WriteBatch, under the entry counter, with (packet cursor + run length, run length), on every path that commits an entry", 6)
	c.Rule("C26.count", "the first result of WriteBatch is 0 before any send and otherwise the current version of one accumulator seeded with 0 whose only increments are entryPkts[e] for e = cursor .. cursor+sent-1, each once, the counting loop entered exactly once per accepted send and never on a rejected one", 7)
	c.Rule("C26.entry", "packing loop: every way round advances the packet cursor by exactly planRun's run length (behind run length != 0); a committed entry (counter+1) also advances the iovec cursor by the run length and has, on every path, Iov=&iovs[v], Iovlen=run length, Namelen=writeSockaddr(names[e], addrs[i]) behind err == nil, writeEntryCmsg(e, run length, segment size), and iovs[v+k] <- bufs[i+k] for every k in [0, run length); prepareWriteMessages wires msgs[x].Hdr.Name to names[x]", 18)
	c.Rule("C26.cmsg", "writeEntryCmsg: exactly one Control store and one Controllen set on every path, on msgs[entry].Hdr; non-nil Control / non-zero length only behind runLen >= 2, nil / zero only behind runLen <= 1; the UDP_SEGMENT payload is the 16-bit native-endian segSize written at the entry's slot + CmsgLen(0) before Control is pointed at it; prepareWriteMessages pre-fills every slot's header (SOL_UDP, UDP_SEGMENT, CmsgLen(2)) at the same stride", 11)
	c.Rule("C26.plan", "planRun: the run-length phi starts at 1 and steps by 1; its increment is only behind same destination as addrs[start], 1 <= len(next) <= len(first), total+len(next) <= maxGSOBytes (total seeded with len(first), stepping by len(next)), runLen < min(maxGSOSegments, iovBudget); the loop goes round only behind len(next) >= len(first); the loop is entered only with gsoSupported and 1 <= len(first) <= maxGSOBytes <= 65535; results are 0, 1 or the run length, with len(bufs[start]) as segment size", 14)
	c.Rule("C26.syscall", "sendmmsg wrapper: the syscall gets &msgs[start] and n of its own parameters, every return yields the kernel's count, the call is repeated only behind errno != 0; sendFn is assigned only in newBatchWriter, to the wrapper bound to the same writer", 5)
	s := c26Resolve(c)
	if s == nil {
		return
	}
	c26Drain(c, s)
	c26Ledger(c, s)
	c26Count(c, s)
	c26Entry(c, s)
	c26Cmsg(c, s)
	c26Plan(c, s)
	c26Syscall(c, s)
}

func c26Resolve(c *Ctx) *c26Shape {
	s := &c26Shape{f: map[string]*types.Var{}}
	for _, n := range []string{"msgs", "iovs", "names", "cmsg", "cmsgSpace", "entryEnd", "entryPkts", "sendFn", "gsoSupported", "maxGSOSegments", "isV4"} {
		s.f[n] = c.Field("udp", "batchWriter", n)
	}
	s.f["Hdr"] = c.Field("udp", "rawMessage", "Hdr")
	for _, n := range []string{"Name", "Namelen", "Iov", "Iovlen", "Control", "Controllen"} {
		s.f[n] = c.Field("udp", "msghdr", n)
	}
	s.f["Base"] = c.Field("udp", "iovec", "Base")
	s.fn = c.Func(c26BW("WriteBatch"))
	for _, v := range s.f {
		if v == nil {
			return nil
		}
	}
	if s.fn == nil || len(s.fn.Params) != 3 {
		return nil
	}
	bad := func(why string) *c26Shape {
		c.Unknown("C26.drain", "WriteBatch:shape", why)
		return nil
	}
	s.env = g11NewEnv(nil)
	s.loops = naturalLoops(s.fn)
	s.w, s.bufs, s.addrs = s.fn.Params[0], s.fn.Params[1], s.fn.Params[2]
	// the injection point: a call through the value loaded from w.sendFn
	eachInstr(s.fn, func(in ssa.Instruction) {
		if call, ok := in.(*ssa.Call); ok && loadsField(call.Call.Value, s.fld("sendFn")) {
			if s.send != nil {
				s.send = nil
				return
			}
			s.send = call
		}
	})
	if s.send == nil || len(s.send.Call.Args) != 2 {
		return bad("expected exactly one call through the sendFn field with two arguments")
	}
	for _, r := range *s.send.Referrers() {
		if ex, ok := r.(*ssa.Extract); ok && ex.Index == 0 {
			s.sent = ex
		}
	}
	s.L = innermostLoop(s.loops, s.send.Block())
	if s.sent == nil || s.L == nil {
		return bad("the sendFn call is not inside a loop, or its count is not used")
	}
	s.cur = g13Induction(s.L, g13HeaderPhi(s.L, s.send.Call.Args[0]))
	if s.cur == nil {
		return bad("the first argument of sendFn is not a variable carried by the loop around the call")
	}
	plans := callsIn(s.fn, c26BW("planRun"))
	if len(plans) != 1 {
		return bad(fmt.Sprintf("expected one planRun call, found %d", len(plans)))
	}
	s.plan, _ = plans[0].(*ssa.Call)
	if s.plan == nil {
		return bad("planRun is not called directly")
	}
	for _, r := range *s.plan.Referrers() {
		if ex, ok := r.(*ssa.Extract); ok {
			if ex.Index == 0 {
				s.R = ex
			} else {
				s.S = ex
			}
		}
	}
	s.P = innermostLoop(s.loops, s.plan.Block())
	if s.R == nil || s.S == nil || s.P == nil || s.P == s.L {
		return bad("planRun's results are not both used, or the call is not in a packing loop of its own")
	}
	pa := callArgs(s.plan) // w, bufs, addrs, start, budget
	if pa[0] != ssa.Value(s.w) || pa[1] != ssa.Value(s.bufs) || pa[2] != ssa.Value(s.addrs) {
		return bad("planRun is not given WriteBatch's own receiver, bufs and addrs")
	}
	s.iP = g13Induction(s.P, g13HeaderPhi(s.P, pa[3]))
	if s.iP == nil {
		return bad("planRun's start argument is not a variable carried by the packing loop")
	}
	if bo, ok := pa[4].(*ssa.BinOp); ok && bo.Op == token.SUB {
		if call, ok := bo.X.(*ssa.Call); ok && builtinName(call) == "len" {
			if base, ok := g13FieldLoadOf(call.Call.Args[0], s.fld("iovs")); ok && base == ssa.Value(s.w) {
				s.vP = g13Induction(s.P, g13HeaderPhi(s.P, bo.Y))
			}
		}
	}
	if s.vP == nil {
		return bad("planRun's iovec budget is not len(w.iovs) minus a cursor carried by the packing loop")
	}
	// the entry counter: the drain loop sends n = E - cursor
	if bo, ok := s.send.Call.Args[1].(*ssa.BinOp); ok && bo.Op == token.SUB && bo.Y == ssa.Value(s.cur.Phi) {
		s.eP = g13Induction(s.P, g13HeaderPhi(s.P, bo.X))
	}
	if s.eP == nil {
		// a larger / different window: find the counter as the packing-loop phi stepping by 0 or 1 that
		// indexes msgs, so that the window rule can report against it
		for _, p := range g13HeaderPhis(s.P) {
			in := g13Induction(s.P, p)
			ok := p != s.iP.Phi && p != s.vP.Phi && len(in.Back) > 0
			for _, b := range in.Back {
				d, isC := s.env.lin(b.Val).constDiff(s.env.lin(p))
				ok = ok && isC && (d == 0 || d == 1)
			}
			if ok {
				s.eP = in
			}
		}
	}
	if s.eP == nil {
		return bad("no entry counter carried by the packing loop")
	}
	s.O = g13Enclosing(s.loops, s.L)
	if s.O == nil || !g13LoopInside(s.P, s.O) || len(s.iP.Init) != 1 {
		return bad("the packing and drain loops are not inside one chunk loop")
	}
	s.iO = g13Induction(s.O, g13HeaderPhi(s.O, s.iP.Init[0]))
	if s.iO == nil {
		return bad("the packing cursor is not seeded from a variable carried by the chunk loop")
	}
	return s
}

// ---------------------------------------------------------------------------------------

func (s *c26Shape) guardSentGE1(c *Ctx) Guard {
	return c.g11LinGuard("sent >= 1", s.env, g11GEq(s.env.lin(s.sent), g11Const(1)))
}

func c26Drain(c *Ctx, s *c26Shape) {
	env, fn := s.env, s.fn
	curL, sentL, EL := env.lin(s.cur.Phi), env.lin(s.sent), env.lin(s.eP.Phi)
	// ---- window
	nL := env.lin(s.send.Call.Args[1])
	switch d, isC := nL.constDiff(EL.sub(curL)); {
	case isC && d == 0:
		c.OK("C26.drain", "WriteBatch:sendFn:window", "sendFn(cursor, packed-cursor)")
	case isC && d < 0:
		c.OK("C26.drain", "WriteBatch:sendFn:window", fmt.Sprintf("sendFn(cursor, packed-cursor%+d): a shorter window", d))
	case isC:
		c.Bad("C26.drain", "WriteBatch:sendFn:window", c.instrPos(s.send), fmt.Sprintf("the kernel is handed %d entries beyond those packed in this chunk: entries left over from an earlier chunk are sent again", d))
	case !g13DependsOn(s.send.Call.Args[1], s.eP.Phi):
		c.Bad("C26.drain", "WriteBatch:sendFn:window", c.instrPos(s.send), "the entry count handed to the kernel does not depend on the number of entries packed in this chunk ("+exprString(s.send.Call.Args[1])+"): entries left over from an earlier chunk are sent again")
	default:
		c.Unknown("C26.drain", "WriteBatch:sendFn:window", "the entry count handed to the kernel is not (entries packed) - cursor plus a constant: "+nL.String())
	}
	okInit := len(s.cur.Init) > 0
	for _, v := range s.cur.Init {
		okInit = okInit && env.lin(v).equal(g11Const(0))
	}
	for _, v := range s.eP.Init {
		okInit = okInit && env.lin(v).equal(g11Const(0))
	}
	c.Check(okInit, "C26.drain", "WriteBatch:drain:starts-at-0", c.instrPos(s.cur.Phi), "cursor and entry counter start at 0", "the drain cursor or the entry counter does not start at 0: the first packed entry is msgs[0]")
	// the loop continues exactly while cursor < packed, tested before the send
	var normal *Edge
	for _, e := range g11ExitEdges(s.L) {
		e := e
		ifi, ok := e.From.Instrs[len(e.From.Instrs)-1].(*ssa.If)
		if !ok {
			continue
		}
		t, f := env.outcomes(ifi.Cond)
		stay, leave := t, f
		if e.Succ == 0 {
			stay, leave = f, t
		}
		lt, _ := g11Cmp(token.LSS, curL, EL)
		ge, _ := g11Cmp(token.GEQ, curL, EL)
		if g11ImpliesAny(stay, []g11Cons{lt}) && g11ImpliesAny(leave, []g11Cons{ge}) && e.From.Dominates(s.send.Block()) {
			normal = &e
		}
	}
	c.Check(normal != nil, "C26.drain", "WriteBatch:drain:while-cursor<packed", c.instrPos(s.send), "tested before every send", "the drain loop does not test cursor < packed entries before each send: a send with an empty or negative window, or entries left unsent")
	// ---- advance
	for k, b := range s.cur.Back {
		cons := fmt.Sprintf("WriteBatch:drain:advance#%d", k)
		d := env.lin(b.Val).sub(curL)
		if !g13LinOnly(d, sentL) {
			c.Unknown("C26.drain", cons, "the cursor step is not a combination of the accepted count and constants: "+d.String())
			continue
		}
		// progress: d >= 1
		if kk, isC := d.isConst(); isC {
			c.Check(kk >= 1, "C26.drain", cons+":progress", c.instrPos(b.Pred.Instrs[len(b.Pred.Instrs)-1]), fmt.Sprintf("cursor += %d", kk), fmt.Sprintf("the drain loop goes round with the cursor changed by %d: the same entries are handed to the kernel again", kk))
		} else {
			c.g13CheckEdge("C26.drain", cons+":progress", fn, s.send.Block(), b.Pred, s.L.Header, c.g11LinGuard("step >= 1", env, g11GEq(d, g11Const(1))), "the drain loop can go round without advancing: the same entries are handed to the kernel again")
		}
		// no resubmission: d >= sent
		if kk, isC := d.constDiff(sentL); isC {
			c.Check(kk >= 0, "C26.drain", cons+":past-accepted", c.instrPos(b.Pred.Instrs[len(b.Pred.Instrs)-1]), "cursor += sent", fmt.Sprintf("the cursor advances by %d less than the count the kernel accepted: accepted entries are sent twice", -kk))
		} else {
			c.g13CheckEdge("C26.drain", cons+":past-accepted", fn, s.send.Block(), b.Pred, s.L.Header, c.g11LinGuard("sent <= step", env, g11LEq(sentL, d)), "the cursor can advance by less than the count the kernel accepted: accepted entries are sent twice")
		}
	}
	// ---- where the next chunk starts
	iPL := env.lin(s.iP.Phi)
	nResume, nRewind := 0, 0
	for _, b := range s.iO.Back {
		if env.lin(b.Val).equal(iPL) {
			nResume++
			continue
		}
		cons := fmt.Sprintf("WriteBatch:rewind#%d", nRewind)
		nRewind++
		pos := c.instrPos(b.Pred.Instrs[len(b.Pred.Instrs)-1])
		dep := g13DependsOn(b.Val, s.cur.Phi)
		if !dep {
			c.Bad("C26.drain", cons+":target", pos, "the packet cursor is set back to a position that does not depend on the drain cursor ("+exprString(b.Val)+"): whenever the failing entry is not the first of the chunk, the entries the kernel already accepted are packed and sent again")
		} else {
			// entryEnd[x]-entryPkts[x], directly or as the single result of a helper
			val, subst := g13InlineResult(b.Val)
			res := func(v ssa.Value) ssa.Value { return g11Res(subst, v) }
			bo, _ := val.(*ssa.BinOp)
			var ex, ey g13Elem
			okx, oky := false, false
			if bo != nil && bo.Op == token.SUB {
				ex, okx = g13ElemLoad(bo.X)
				ey, oky = g13ElemLoad(bo.Y)
			}
			if okx && oky && ex.F == s.fld("entryEnd") && ey.F == s.fld("entryPkts") && res(ex.Base) == ssa.Value(s.w) && res(ey.Base) == ssa.Value(s.w) {
				ok := env.lin(res(ex.Idx)).equal(curL) && env.lin(res(ey.Idx)).equal(curL)
				c.Check(ok, "C26.drain", cons+":target", pos, "entryEnd[cursor]-entryPkts[cursor]", "the rewind reads the ledger at another index than the drain cursor: the replay does not start at the first entry the kernel refused (accepted packets resent, or refused ones skipped)")
			} else {
				c.Unknown("C26.drain", cons+":target", "rewind target is not entryEnd[x]-entryPkts[x]: "+exprString(b.Val))
			}
		}
		c.g13CheckEdge("C26.drain", cons+":nothing-accepted", fn, s.send.Block(), b.Pred, s.O.Header, c.g11LinGuard("sent <= 0", env, g11LEq(sentL, g11Const(0))), "the packet cursor is rewound to the cursor entry although the kernel accepted entries from it on: they are packed and sent again")
	}
	c.Check(nResume > 0, "C26.drain", "WriteBatch:resume-at-packing-cursor", c.instrPos(s.iO.Phi), fmt.Sprintf("%d edge(s)", nResume), "after a drained chunk the next chunk does not start at the packing cursor: packets are packed twice or skipped")
	// ---- replay at most once
	n := 0
	for _, b := range s.iO.Back {
		if env.lin(b.Val).equal(iPL) {
			continue
		}
		cons := fmt.Sprintf("WriteBatch:rewind#%d:once", n)
		n++
		term := b.Pred.Instrs[len(b.Pred.Instrs)-1]
		isOn := c.g11Summ("gsoSupported", func(subst map[ssa.Value]ssa.Value) Guard {
			return gValBool("gsoSupported", true, func(v ssa.Value) bool {
				b, ok := g13FieldLoadOf(v, s.fld("gsoSupported"))
				return ok && g11Res(subst, b) == ssa.Value(s.w)
			})
		})
		okOn, _, path := c.g13EdgeBehind(fn, s.send.Block(), b.Pred, s.O.Header, isOn)
		av, path2 := c.avoidsCut(fn, s.send, term, func(in ssa.Instruction) bool { return c.g13MustStoreBool(in, s.fld("gsoSupported"), false) })
		switch {
		case !okOn:
			c.Bad("C26.drain", cons, c.instrPos(term), "the rewind is taken without gsoSupported having been found true: with a persistent rejection the same entries are replanned and refused forever", path...)
		case av:
			c.Bad("C26.drain", cons, c.instrPos(term), "the rewind is taken without storing gsoSupported = false: the same runs are rebuilt and refused forever", path2...)
		default:
			c.OK("C26.drain", cons, "behind gsoSupported, which is cleared on the way")
		}
	}
}

// ---------------------------------------------------------------------------------------
// the entry ledger: entryEnd[e], entryPkts[e]

// commitEdges: the back edges of the packing loop on which the entry counter grows by one.
func (s *c26Shape) commitEdges() (commit, skip []g13Back, odd bool) {
	for _, b := range s.eP.Back {
		switch d, isC := s.env.lin(b.Val).constDiff(s.env.lin(s.eP.Phi)); {
		case isC && d == 1:
			commit = append(commit, b)
		case isC && d == 0:
			skip = append(skip, b)
		default:
			odd = true
		}
	}
	return
}

func c26Ledger(c *Ctx, s *c26Shape) {
	env := s.env
	commit, _, odd := s.commitEdges()
	if odd || len(commit) == 0 {
		c.Unknown("C26.ledger", "WriteBatch:commit", "the entry counter does not step by 0 or 1 on every way round the packing loop")
		return
	}
	want := map[string]g11Lin{"entryEnd": env.lin(s.iP.Phi).add(env.lin(s.R)), "entryPkts": env.lin(s.R)}
	funcs := c.moduleFuncs()
	for _, name := range []string{"entryEnd", "entryPkts"} {
		f := s.fld(name)
		var elemStores []*ssa.Store
		bad := 0
		for _, ws := range fieldWriters(funcs, f) {
			if c.isTestFile(ws.Instr.Pos()) || ws.Kind == "addr-escape" {
				continue
			}
			switch {
			case ws.Kind == "store" && matchFunc(fnObj(ws.Fn), c26BW("prepareWriteMessages")):
				// allocation of the scratch at construction
			case ws.Kind == "elem-store" && ws.Fn == s.fn:
				elemStores = append(elemStores, ws.Instr.(*ssa.Store))
			default:
				bad++
				c.Bad("C26.ledger", fmt.Sprintf("batchWriter.%s:%s<-%s", name, ws.Kind, fnName(ws.Fn)), c.instrPos(ws.Instr), "the entry ledger is written outside entry commit: the run start recovered from it for the GSO replay, and the packet count, no longer describe the entry that was packed")
			}
		}
		if bad == 0 {
			c.OK("C26.ledger", "batchWriter."+name+":writers", fmt.Sprintf("%d element store(s), all in WriteBatch", len(elemStores)))
		}
		isGood := func(in ssa.Instruction) bool {
			st, ok := in.(*ssa.Store)
			if !ok {
				return false
			}
			el, ok := g13ElemAddr(st.Addr)
			return ok && el.F == f && el.Base == ssa.Value(s.w) && env.lin(el.Idx).equal(env.lin(s.eP.Phi)) && env.lin(st.Val).equal(want[name])
		}
		for i, st := range elemStores {
			c.Check(isGood(st), "C26.ledger", fmt.Sprintf("WriteBatch:%s-store#%d", name, i), c.instrPos(st), name+"[entry counter] written with the tabled value", "the ledger store is not "+name+"[entry counter] = "+map[string]string{"entryEnd": "packet cursor + run length", "entryPkts": "run length"}[name]+": the count of accepted packets and the replay start are computed from wrong numbers")
		}
		for k, b := range commit {
			av, path := c.avoidsCut(s.fn, s.plan, b.Pred.Instrs[len(b.Pred.Instrs)-1], isGood)
			cons := fmt.Sprintf("WriteBatch:commit#%d:%s-written", k, name)
			if av {
				c.Bad("C26.ledger", cons, c.instrPos(b.Pred.Instrs[len(b.Pred.Instrs)-1]), "an entry is committed without its "+name+" ledger slot written: the drain loop reads the value of an earlier chunk", path...)
			} else {
				c.OK("C26.ledger", cons, "written on every path to the commit")
			}
		}
	}
}

// ---------------------------------------------------------------------------------------
// the returned count

func c26Count(c *Ctx, s *c26Shape) {
	env, fn := s.env, s.fn
	curL, sentL := env.lin(s.cur.Phi), env.lin(s.sent)
	var starts []ssa.Value
	rets := g11Returns(fn)
	fromSend := reachable(s.send.Block(), nil)
	for _, r := range rets {
		if _, isC := r.Results[0].(*ssa.Const); !isC {
			starts = append(starts, r.Results[0])
		}
	}
	web := g13AccumWeb(starts...)
	// seeds: only the constant 0
	okSeed := len(web.Odd) == 0
	why := ""
	for _, sd := range web.Seeds {
		if k, isC := constInt(sd); !isC || k != 0 {
			okSeed, why = false, exprString(sd)
		}
	}
	c.Check(okSeed && len(web.Adds) > 0, "C26.count", "WriteBatch:count:seed", c.P.Pos(fn.Pos()), "accumulator seeded with 0", "the returned count is not one accumulator that starts at 0 (it can be "+why+"): the caller is told a number that is not the number of datagrams the kernel accepted")
	for i, r := range rets {
		cons := fmt.Sprintf("WriteBatch:return#%d:count", i)
		_, after := fromSend[r.Block()]
		if k, isC := constInt(r.Results[0]); isC {
			c.Check(k == 0 && !after, "C26.count", cons, c.instrPos(r), "0 before any send", "a constant count is returned after datagrams may have been handed to the kernel")
			continue
		}
		cur := g13Current(web, r)
		c.Check(cur != nil && cur == r.Results[0], "C26.count", cons, c.instrPos(r), "the current accumulator", "the value returned is not the current value of the accumulator at this return ("+exprString(r.Results[0])+"): accepted datagrams are not reported, or others are")
	}
	// increments
	var countLoops []*natLoop
	for i, add := range web.Adds {
		cons := fmt.Sprintf("WriteBatch:count:increment#%d", i)
		el, ok := g13ElemLoad(web.Incr[add])
		if !ok || el.F != s.fld("entryPkts") || el.Base != ssa.Value(s.w) {
			c.Bad("C26.count", cons, c.instrPos(add), "the count grows by "+exprString(web.Incr[add])+", not by the packet count entryPkts[e] of an accepted entry (a GSO entry carries several datagrams, a hole none)")
			continue
		}
		K := innermostLoop(s.loops, add.Block())
		if K == nil || K == s.L || !g13LoopInside(K, s.L) || !s.send.Block().Dominates(K.Header) {
			c.Bad("C26.count", cons, c.instrPos(add), "the count is not taken in a loop over the accepted entries after the send")
			continue
		}
		ok, whyNot := g13LoopCovers(env, K, el.Idx, curL, curL.add(sentL))
		if ok && g11PerIteration(K, func(in ssa.Instruction) bool { return in == ssa.Instruction(add) }) != g11One {
			ok, whyNot = false, "an entry can be counted zero or several times"
		}
		c.Check(ok, "C26.count", cons, c.instrPos(add), "entryPkts[e], e = cursor .. cursor+sent-1, once each", "the counting loop does not visit exactly the entries the kernel accepted [cursor, cursor+sent): "+whyNot)
		countLoops = append(countLoops, K)
	}
	// the counting loop runs once per accepted send, never for a rejected one
	if len(countLoops) == 1 {
		K := countLoops[0]
		enters := func(in ssa.Instruction) bool {
			b := in.Block()
			if K.Body[b] || in != b.Instrs[len(b.Instrs)-1] {
				return false
			}
			for _, su := range b.Succs {
				if su == K.Header {
					return true
				}
			}
			return false
		}
		blocked := g11BackEdges(s.L)
		for _, e := range g11ExitEdges(s.L) {
			blocked[e] = true
		}
		cf := g11Counts(s.L.Header, blocked, enters)
		for k, b := range s.cur.Back {
			cons := fmt.Sprintf("WriteBatch:count:per-send#%d", k)
			m := cf.atEnd(b.Pred)
			if env.lin(b.Val).sub(curL).equal(sentL) {
				c.Check(m == g11One, "C26.count", cons, c.instrPos(b.Pred.Instrs[len(b.Pred.Instrs)-1]), "counted once", "on the way round that steps past the accepted entries they are counted "+g11MaskString(m)+" times")
			} else {
				c.Check(m == g11Zero, "C26.count", cons, c.instrPos(b.Pred.Instrs[len(b.Pred.Instrs)-1]), "nothing counted", "on a way round that does not step by the accepted count, entries are counted "+g11MaskString(m)+" times")
			}
		}
	} else if len(web.Adds) > 0 {
		c.Unknown("C26.count", "WriteBatch:count:per-send", fmt.Sprintf("%d counting loops", len(countLoops)))
	}
}

// ---------------------------------------------------------------------------------------
// packing: one entry per run, all of its kernel-visible fields written from the same run

type c26Event struct {
	name string
	// kind: the instruction writes this field / makes this call at all; good: with the right entry,
	// index and value
	match func(in ssa.Instruction) (kind, good bool)
	wrong string // what goes wrong when it is written from something else
}

func c26Entry(c *Ctx, s *c26Shape) {
	env, fn := s.env, s.fn
	RL, iL, vL, eL := env.lin(s.R), env.lin(s.iP.Phi), env.lin(s.vP.Phi), env.lin(s.eP.Phi)
	commit, _, odd := s.commitEdges()
	if odd || len(commit) == 0 {
		c.Unknown("C26.entry", "WriteBatch:commit", "the entry counter does not step by 0 or 1 on every way round the packing loop")
		return
	}
	opaque := g13ModuleCallsExcept(fn, PkgPath("udp"), c26KnownCalls...)
	missing := func(cons, pos, why string, path []string) {
		if len(opaque) > 0 {
			c.Unknown("C26.entry", cons, why+" - but WriteBatch calls "+fnName(opaque[0].Common().StaticCallee())+", which is not modelled and may do it")
			return
		}
		c.Bad("C26.entry", cons, pos, why, path...)
	}
	term := func(b *ssa.BasicBlock) ssa.Instruction { return b.Instrs[len(b.Instrs)-1] }
	// ---- cursors
	notZero := c.g11LinGuard("run length != 0", env, g11Cons{RL, g11NE0}, g11GEq(RL, g11Const(1)))
	for k, b := range s.iP.Back {
		cons := fmt.Sprintf("WriteBatch:pack:edge#%d", k)
		d := env.lin(b.Val).sub(iL)
		if !g13LinOnly(d, RL) {
			c.Unknown("C26.entry", cons+":packet-cursor", "the packet cursor step is not a combination of the run length and constants: "+d.String())
		} else {
			c.Check(d.equal(RL), "C26.entry", cons+":packet-cursor", c.instrPos(term(b.Pred)), "i += run length", "the packet cursor does not advance by exactly the run length planRun returned ("+d.String()+"): datagrams of the run are packed into a second entry and sent twice, or datagrams after it are never sent")
		}
		c.g13CheckEdge("C26.entry", cons+":progress", fn, s.plan.Block(), b.Pred, s.P.Header, notZero, "the packing loop can go round with a run length of 0: it never terminates")
	}
	vBack := map[*ssa.BasicBlock]ssa.Value{}
	for _, b := range s.vP.Back {
		vBack[b.Pred] = b.Val
	}
	for k, b := range commit {
		d := env.lin(vBack[b.Pred]).sub(vL)
		c.Check(d.equal(RL), "C26.entry", fmt.Sprintf("WriteBatch:commit#%d:iovec-cursor", k), c.instrPos(term(b.Pred)), "iovIdx += run length", "a committed entry does not advance the iovec cursor by its run length ("+d.String()+"): the next entry's iovecs overwrite this entry's before the chunk is sent")
	}
	// ---- header fields of the committed entry
	isHdr := func(v ssa.Value) bool { // &w.msgs[entry].Hdr
		fa, ok := v.(*ssa.FieldAddr)
		if !ok || fieldOfAddr(fa) != s.fld("Hdr") {
			return false
		}
		el, ok := g13ElemAddr(fa.X)
		return ok && el.F == s.fld("msgs") && el.Base == ssa.Value(s.w) && env.lin(el.Idx).equal(eL)
	}
	hdrStore := func(in ssa.Instruction, f string) (*ssa.Store, bool, bool) { // store to <hdr>.f; is the hdr the entry's?
		st, ok := in.(*ssa.Store)
		if !ok {
			return nil, false, false
		}
		fa, ok := st.Addr.(*ssa.FieldAddr)
		if !ok || fieldOfAddr(fa) != s.fld(f) {
			return nil, false, false
		}
		return st, true, isHdr(fa.X)
	}
	var sockCall *ssa.Call
	sockOK := func(call *ssa.Call) bool { // writeSockaddr(w.names[entry], addrs[i], ...)
		a := call.Call.Args
		el, ok := g13ElemLoad(a[0])
		if !ok || el.F != s.fld("names") || el.Base != ssa.Value(s.w) || !env.lin(el.Idx).equal(eL) {
			return false
		}
		idx, ok := g13ParamElemLoad(a[1], s.addrs)
		return ok && env.lin(idx).equal(iL)
	}
	events := []c26Event{
		{"Iov", func(in ssa.Instruction) (bool, bool) {
			st, k, h := hdrStore(in, "Iov")
			if !k {
				return false, false
			}
			el, ok := g13ElemAddr(st.Val)
			return true, h && ok && el.F == s.fld("iovs") && el.Base == ssa.Value(s.w) && env.lin(el.Idx).equal(vL)
		}, "the entry does not point at the iovecs that were just filled for its run: it sends another entry's datagrams"},
		{"Iovlen", func(in ssa.Instruction) (bool, bool) {
			if st, k, h := hdrStore(in, "Iovlen"); k {
				return true, h && env.lin(stripValue(st.Val)).equal(RL)
			}
			call, ok := in.(*ssa.Call)
			if !ok || !matchFunc(calleeObj(call), c26UdpFn("setMsgIovlen")) {
				return false, false
			}
			return true, isHdr(call.Call.Args[0]) && env.lin(call.Call.Args[1]).equal(RL)
		}, "the entry's iovec count is not its run length: datagrams of the run are left out, or iovecs of the next entry are sent with it and then again on their own"},
		{"Namelen", func(in ssa.Instruction) (bool, bool) {
			st, k, h := hdrStore(in, "Namelen")
			if !k {
				return false, false
			}
			call, idx := callOf(st.Val)
			if !h || call == nil || idx != 0 || !matchFunc(calleeObj(call), c26UdpFn("writeSockaddr")) || !sockOK(call) {
				return true, false
			}
			sockCall = call
			return true, true
		}, "the entry's address is not writeSockaddr(names[entry], addrs[packet cursor]): the run is sent to another datagram's destination"},
		{"writeEntryCmsg", func(in ssa.Instruction) (bool, bool) {
			call, ok := in.(*ssa.Call)
			if !ok || !matchFunc(calleeObj(call), c26BW("writeEntryCmsg")) {
				return false, false
			}
			a := call.Call.Args
			return true, a[0] == ssa.Value(s.w) && env.lin(a[1]).equal(eL) && a[2] == s.R && a[3] == s.S
		}, "the control message is not written for (this entry, planRun's run length, planRun's segment size): a run is segmented at another run's size, or a stale UDP_SEGMENT applies"},
	}
	for _, ev := range events {
		good := func(in ssa.Instruction) bool { _, g := ev.match(in); return g }
		n := 0
		eachInstr(fn, func(in ssa.Instruction) {
			if k, g := ev.match(in); k && !g && s.P.Body[in.Block()] {
				c.Bad("C26.entry", fmt.Sprintf("WriteBatch:entry:%s#%d", ev.name, n), c.instrPos(in), ev.wrong)
				n++
			}
		})
		for k, b := range commit {
			cons := fmt.Sprintf("WriteBatch:commit#%d:%s", k, ev.name)
			if av, path := c.avoidsCut(fn, s.plan, term(b.Pred), good); av {
				if n == 0 {
					missing(cons, c.instrPos(term(b.Pred)), "an entry is committed without "+ev.name+" written for it: the kernel reads what an earlier chunk left in the slot", path)
				}
			} else {
				c.OK("C26.entry", cons, "written for the entry on every path to the commit")
			}
		}
	}
	if sockCall != nil {
		for k, b := range commit {
			c.g13CheckEdge("C26.entry", fmt.Sprintf("WriteBatch:commit#%d:address-encoded", k), fn, s.plan.Block(), b.Pred, s.P.Header, gErrNil("writeSockaddr err == nil", callTo(c26UdpFn("writeSockaddr"))), "a run whose destination could not be encoded is committed: it is sent to whatever address the slot held before")
		}
	}
	c26Fill(c, s, commit, missing)
	c26NameWiring(c, s)
}

// c26Fill: iovs[v+k] <- bufs[i+k] for every k in [0, run length).
func c26Fill(c *Ctx, s *c26Shape, commit []g13Back, missing func(cons, pos, why string, path []string)) {
	env, fn := s.env, s.fn
	RL, iL, vL := env.lin(s.R), env.lin(s.iP.Phi), env.lin(s.vP.Phi)
	iovAt := func(addr ssa.Value) (ssa.Value, bool) { // &w.iovs[idx]
		el, ok := g13ElemAddr(addr)
		if !ok || el.F != s.fld("iovs") || el.Base != ssa.Value(s.w) {
			return nil, false
		}
		return el.Idx, true
	}
	type site struct {
		in   ssa.Instruction
		idx  ssa.Value
		val  ssa.Value
		base bool
	}
	var sites []site
	eachInstr(fn, func(in ssa.Instruction) {
		switch x := in.(type) {
		case *ssa.Store:
			if fa, ok := x.Addr.(*ssa.FieldAddr); ok && fieldOfAddr(fa) == s.fld("Base") {
				if idx, ok := iovAt(fa.X); ok {
					sites = append(sites, site{in, idx, x.Val, true})
				}
			}
		case *ssa.Call:
			if matchFunc(calleeObj(x), c26UdpFn("setIovLen")) {
				if idx, ok := iovAt(x.Call.Args[0]); ok {
					sites = append(sites, site{in, idx, x.Call.Args[1], false})
				}
			}
		}
	})
	if len(sites) == 0 {
		missing("WriteBatch:fill", c.P.Pos(fn.Pos()), "no iovec of the scratch is filled in WriteBatch", nil)
		return
	}
	K := innermostLoop(s.loops, sites[0].in.Block())
	for _, st := range sites {
		if innermostLoop(s.loops, st.in.Block()) != K {
			K = nil
		}
	}
	if K == nil || !g13LoopInside(K, s.P) || !s.plan.Block().Dominates(K.Header) {
		c.Unknown("C26.entry", "WriteBatch:fill:loop", "the iovec writes are not in one loop of their own after planRun, inside the packing loop")
		return
	}
	// k: the header phi of K with iov index = v + k
	var kphi *ssa.Phi
	for _, p := range g13HeaderPhis(K) {
		if env.lin(sites[0].idx).sub(vL).equal(env.lin(p)) {
			kphi = p
		}
	}
	if kphi == nil {
		c.Bad("C26.entry", "WriteBatch:fill:iov-index", c.instrPos(sites[0].in), "the iovec written is not iovs[iovec cursor + k] for the loop's k: "+env.lin(sites[0].idx).String())
		return
	}
	kL := env.lin(kphi)
	ok, why := g13LoopCovers(env, K, kphi, g11Const(0), RL)
	c.Check(ok, "C26.entry", "WriteBatch:fill:covers-run", c.instrPos(kphi), "k = 0 .. run length-1", "the fill loop does not visit every datagram of the run exactly once in order: "+why+"; an iovec keeps the datagram of an earlier chunk, which is sent again")
	// the datagram of iteration k: loads of bufs[i+k]
	var lens []g11Cons // len(b_k) == 0, for every SSA load of the iteration's datagram
	isBk := func(v ssa.Value) bool {
		idx, ok := g13ParamElemLoad(v, s.bufs)
		return ok && env.lin(idx).sub(iL).equal(kL)
	}
	lenAtoms := map[string]bool{}
	for b := range K.Body {
		for _, in := range b.Instrs {
			if v, ok := in.(ssa.Value); ok && isBk(v) {
				a := g11Atom("len(" + env.key(v) + ")")
				lens = append(lens, g11Eq(a, g11Const(0)))
				lenAtoms[a.String()] = true
			}
		}
	}
	empty := c.g11LinGuard("len(bufs[i+k]) == 0", env, lens...)
	nb, nl := 0, 0
	for _, st := range sites {
		pos := c.instrPos(st.in)
		if st.base {
			cons := fmt.Sprintf("WriteBatch:fill:base#%d", nb)
			nb++
			okIdx := env.lin(st.idx).sub(vL).equal(kL)
			if isNilConst(st.val) {
				if c.Check(okIdx, "C26.entry", cons, pos, "nil only for an empty datagram", "the iovec written is not iovs[iovec cursor + k]") {
					c.g13CheckInstr("C26.entry", cons, fn, K.Header, st.in, empty, "a nil base is stored for a datagram that is not empty: the entry is refused or sends other memory")
				}
				continue
			}
			ia, isIA := st.val.(*ssa.IndexAddr)
			z, isZ := int64(-1), false
			if isIA {
				z, isZ = constInt(ia.Index)
			}
			c.Check(okIdx && isIA && isZ && z == 0 && isBk(ia.X), "C26.entry", cons, pos, "iovs[v+k].Base = &bufs[i+k][0]", "the iovec at iovs[iovec cursor + k] does not point at the first byte of bufs[packet cursor + k]: a datagram of the run is replaced by a copy of another one (sent twice) and its own bytes are never sent")
		} else {
			cons := fmt.Sprintf("WriteBatch:fill:len#%d", nl)
			nl++
			okIdx := env.lin(st.idx).sub(vL).equal(kL)
			if k, isC := constInt(st.val); isC && k == 0 {
				if c.Check(okIdx, "C26.entry", cons, pos, "0 only for an empty datagram", "the iovec written is not iovs[iovec cursor + k]") {
					c.g13CheckInstr("C26.entry", cons, fn, K.Header, st.in, empty, "a zero length is stored for a datagram that is not empty")
				}
				continue
			}
			c.Check(okIdx && lenAtoms[env.lin(st.val).String()], "C26.entry", cons, pos, "iovs[v+k].Len = len(bufs[i+k])", "the iovec length at iovs[iovec cursor + k] is not len(bufs[packet cursor + k]): the datagram is truncated or runs into foreign bytes")
		}
	}
	isBase := func(in ssa.Instruction) bool {
		for _, st := range sites {
			if st.in == in && st.base {
				return true
			}
		}
		return false
	}
	isLen := func(in ssa.Instruction) bool {
		for _, st := range sites {
			if st.in == in && !st.base {
				return true
			}
		}
		return false
	}
	mb, ml := g11PerIteration(K, isBase), g11PerIteration(K, isLen)
	c.Check(mb == g11One && ml == g11One, "C26.entry", "WriteBatch:fill:both-fields-each-k", c.instrPos(kphi), "one base and one length per datagram", fmt.Sprintf("per datagram of the run the iovec base is written %s times and its length %s times: a stale half of an iovec from an earlier chunk is sent", g11MaskString(mb), g11MaskString(ml)))
	for k, b := range commit {
		cons := fmt.Sprintf("WriteBatch:commit#%d:filled", k)
		if av, path := c.avoidsCut(fn, s.plan, b.Pred.Instrs[len(b.Pred.Instrs)-1], func(in ssa.Instruction) bool { return in.Block() == K.Header }); av {
			c.Bad("C26.entry", cons, c.instrPos(b.Pred.Instrs[len(b.Pred.Instrs)-1]), "an entry is committed without its iovecs filled: it sends the datagrams an earlier chunk left in the scratch", path...)
		} else {
			c.OK("C26.entry", cons, "the fill loop runs on every path to the commit")
		}
	}
}

// c26NameWiring: construction points msgs[x].Hdr.Name at names[x] for every x.
func c26NameWiring(c *Ctx, s *c26Shape) {
	fn := c.Func(c26BW("prepareWriteMessages"))
	if fn == nil {
		return
	}
	env := g11NewEnv(nil)
	n := 0
	eachInstr(fn, func(in ssa.Instruction) {
		st, ok := in.(*ssa.Store)
		if !ok {
			return
		}
		fa, ok := st.Addr.(*ssa.FieldAddr)
		if !ok || fieldOfAddr(fa) != s.fld("Name") {
			return
		}
		cons := fmt.Sprintf("prepareWriteMessages:name#%d", n)
		n++
		okW := false
		var x ssa.Value
		if h, ok := fa.X.(*ssa.FieldAddr); ok && fieldOfAddr(h) == s.fld("Hdr") {
			if el, ok := g13ElemAddr(h.X); ok && el.F == s.fld("msgs") {
				if ia, ok := st.Val.(*ssa.IndexAddr); ok {
					if nm, ok := g13ElemLoad(ia.X); ok && nm.F == s.fld("names") && nm.Base == el.Base && env.lin(nm.Idx).equal(env.lin(el.Idx)) {
						if z, isC := constInt(ia.Index); isC && z == 0 {
							okW, x = true, el.Idx
						}
					}
				}
			}
		}
		if !okW {
			c.Bad("C26.entry", cons, c.instrPos(st), "a message header's Name is not pointed at the first byte of the name buffer of the same index: the address written for entry e is not the one the kernel reads for entry e")
			return
		}
		K := innermostLoop(naturalLoops(fn), st.Block())
		covered := false
		if K != nil {
			for _, p := range fn.Params {
				if ok, _ := g13LoopCovers(env, K, x, g11Const(0), env.lin(p)); ok {
					covered = true
				}
			}
			eachInstr(fn, func(in2 ssa.Instruction) {
				if call, ok := in2.(*ssa.Call); ok && builtinName(call) == "len" {
					if ok, _ := g13LoopCovers(env, K, x, g11Const(0), env.lin(call)); ok {
						covered = true
					}
				}
			})
		}
		c.Check(covered, "C26.entry", cons, c.instrPos(st), "msgs[x].Hdr.Name = &names[x][0] for every x", "the Name wiring does not cover every slot of the scratch")
	})
	if n == 0 {
		c.Unknown("C26.entry", "prepareWriteMessages:name", "no store to msghdr.Name found")
	}
}

// ---------------------------------------------------------------------------------------
// writeEntryCmsg

func c26Cmsg(c *Ctx, s *c26Shape) {
	fn := c.Func(c26BW("writeEntryCmsg"))
	if fn == nil || len(fn.Params) != 4 {
		return
	}
	env := g11NewEnv(c27UnixPure)
	w, pe, pr, ps := fn.Params[0], fn.Params[1], fn.Params[2], fn.Params[3]
	rL := env.lin(pr)
	isHdr := func(v ssa.Value) bool { // &w.msgs[entry].Hdr
		fa, ok := v.(*ssa.FieldAddr)
		if !ok || fieldOfAddr(fa) != s.fld("Hdr") {
			return false
		}
		el, ok := g13ElemAddr(fa.X)
		return ok && el.F == s.fld("msgs") && el.Base == ssa.Value(w) && el.Idx == ssa.Value(pe)
	}
	multi := c.g11LinGuard("runLen >= 2", env, g11GEq(rL, g11Const(2)))
	single := c.g11LinGuard("runLen <= 1", env, g11LEq(rL, g11Const(1)))
	slot := func(idx ssa.Value) bool { // entry * w.cmsgSpace
		bo, ok := idx.(*ssa.BinOp)
		if !ok || bo.Op != token.MUL {
			return false
		}
		for _, p := range [][2]ssa.Value{{bo.X, bo.Y}, {bo.Y, bo.X}} {
			if b, ok := g13FieldLoadOf(p[1], s.fld("cmsgSpace")); ok && b == ssa.Value(w) && p[0] == ssa.Value(pe) {
				return true
			}
		}
		return false
	}
	var ctrlStores, lenSets []ssa.Instruction
	var ctrlIdx ssa.Value
	eachInstr(fn, func(in ssa.Instruction) {
		switch x := in.(type) {
		case *ssa.Store:
			fa, ok := x.Addr.(*ssa.FieldAddr)
			if !ok || fieldOfAddr(fa) != s.fld("Control") {
				return
			}
			cons := fmt.Sprintf("writeEntryCmsg:control#%d", len(ctrlStores))
			ctrlStores = append(ctrlStores, in)
			if !isHdr(fa.X) {
				c.Bad("C26.cmsg", cons, c.instrPos(in), "Control is stored on a header other than msgs[entry].Hdr: the entry being packed keeps the control pointer of an earlier chunk")
				return
			}
			if isNilConst(x.Val) {
				c.g13CheckInstr("C26.cmsg", cons, fn, fn.Blocks[0], in, single, "a run of two or more datagrams is sent without a UDP_SEGMENT control message: the kernel sends their concatenation as one datagram")
				return
			}
			el, ok := g13ElemAddr(x.Val)
			if !ok || el.F != s.fld("cmsg") || el.Base != ssa.Value(w) || !slot(el.Idx) {
				c.Bad("C26.cmsg", cons, c.instrPos(in), "Control does not point at the entry's own slot cmsg[entry*cmsgSpace]: the entry is segmented at the size written for another entry")
				return
			}
			ctrlIdx = el.Idx
			c.g13CheckInstr("C26.cmsg", cons, fn, fn.Blocks[0], in, multi, "a single datagram is sent with a UDP_SEGMENT control message: the kernel cuts it into several datagrams at a stale size")
		case *ssa.Call:
			if !matchFunc(calleeObj(x), c26UdpFn("setMsgControllen")) {
				return
			}
			cons := fmt.Sprintf("writeEntryCmsg:controllen#%d", len(lenSets))
			lenSets = append(lenSets, in)
			if !isHdr(x.Call.Args[0]) {
				c.Bad("C26.cmsg", cons, c.instrPos(in), "Controllen is set on a header other than msgs[entry].Hdr")
				return
			}
			if k, isC := constInt(x.Call.Args[1]); isC && k == 0 {
				c.g13CheckInstr("C26.cmsg", cons, fn, fn.Blocks[0], in, single, "a run of two or more datagrams is sent with a zero control length: the kernel sends their concatenation as one datagram")
			} else if b, ok := g13FieldLoadOf(x.Call.Args[1], s.fld("cmsgSpace")); ok && b == ssa.Value(w) {
				c.g13CheckInstr("C26.cmsg", cons, fn, fn.Blocks[0], in, multi, "a single datagram is sent with a non-zero control length: a stale UDP_SEGMENT applies to it")
			} else {
				c.Bad("C26.cmsg", cons, c.instrPos(in), "the control length is neither 0 nor cmsgSpace: "+exprString(x.Call.Args[1]))
			}
		}
	})
	isCtrl := func(in ssa.Instruction) uint8 {
		for _, x := range ctrlStores {
			if x == in {
				return g11One
			}
		}
		return 0
	}
	isLen := func(in ssa.Instruction) uint8 {
		for _, x := range lenSets {
			if x == in {
				return g11One
			}
		}
		return 0
	}
	c.g11ExactlyOnce("C26.cmsg", fn, "Control store", isCtrl, "an entry keeps the control pointer an earlier chunk left in its slot (a stale UDP_SEGMENT on a single datagram, or none on a run)")
	c.g11ExactlyOnce("C26.cmsg", fn, "Controllen set", isLen, "an entry keeps the control length an earlier chunk left in its slot")
	// ---- the payload: PutUint16(cmsg[slot+CmsgLen(0) : +2], uint16(segSize)), native endian
	var puts []*ssa.Call
	eachInstr(fn, func(in ssa.Instruction) {
		if call, ok := in.(*ssa.Call); ok {
			if o := calleeObj(call); o != nil && o.Pkg() != nil && o.Pkg().Path() == "encoding/binary" && len(o.Name()) > 3 && o.Name()[:3] == "Put" {
				puts = append(puts, call)
			}
		}
	})
	if len(puts) != 1 || ctrlIdx == nil {
		c.Unknown("C26.cmsg", "writeEntryCmsg:segment-size", fmt.Sprintf("expected one binary.Put* call and a non-nil Control store, found %d put(s)", len(puts)))
	} else {
		put := puts[0]
		a := callArgs(put)
		okNE := derivesFrom(a[0], sliceLocal, func(v ssa.Value) bool {
			gl, ok := v.(*ssa.Global)
			return ok && gl.Name() == "NativeEndian" && gl.Pkg.Pkg.Path() == "encoding/binary"
		})
		cl0 := g11Atom("call:" + unixPkg + ".CmsgLen(" + g11Const(0).String() + ")")
		okAt := false
		if root, lo, hi := g13SliceBounds(env, a[1]); hi != nil {
			if b, ok := g13FieldLoadOf(root, s.fld("cmsg")); ok && b == ssa.Value(w) {
				okAt = lo.sub(env.lin(ctrlIdx)).equal(cl0) && hi.sub(lo).equal(g11Const(2)) && calleeObj(put).Name() == "PutUint16"
			}
		}
		c.Check(okAt && okNE, "C26.cmsg", "writeEntryCmsg:segment-size:at", c.instrPos(put), "NativeEndian.PutUint16(cmsg[slot+CmsgLen(0):+2])", "the segment size is not written as a native-endian 16-bit value at CmsgLen(0) behind the slot Control points at: the kernel reads another number as gso_size")
		cv, isConv := a[2].(*ssa.Convert)
		c.Check(isConv && cv.X == ssa.Value(ps), "C26.cmsg", "writeEntryCmsg:segment-size:value", c.instrPos(put), "uint16(segSize)", "the UDP_SEGMENT value is not the segSize parameter ("+exprString(a[2])+"): the kernel cuts the run at other boundaries than the datagrams that were packed")
		for i, st := range ctrlStores {
			if sv := st.(*ssa.Store); isNilConst(sv.Val) {
				continue
			}
			av := !g13Dominates(put, st) && !c26ReachesReturnOnlyVia(fn, st, put)
			var path []string
			cons := fmt.Sprintf("writeEntryCmsg:segment-size:written#%d", i)
			if av {
				c.Bad("C26.cmsg", cons, c.instrPos(st), "Control is pointed at the slot on a path that does not write the segment size: the run is cut at the size of an earlier chunk", path...)
			} else {
				c.OK("C26.cmsg", cons, "written on every path that sets Control")
			}
		}
	}
	c26CmsgPrefill(c, s)
}

// c26ReachesReturnOnlyVia: every path from just after `from` to a return executes `via`.
func c26ReachesReturnOnlyVia(fn *ssa.Function, from ssa.Instruction, via ssa.Instruction) bool {
	seen := map[*ssa.BasicBlock]bool{}
	type item struct {
		b *ssa.BasicBlock
		i int
	}
	q := []item{{from.Block(), instrIndex(from) + 1}}
	for len(q) > 0 {
		it := q[0]
		q = q[1:]
		cut := false
		for i := it.i; i < len(it.b.Instrs); i++ {
			if it.b.Instrs[i] == via {
				cut = true
				break
			}
			if _, isRet := it.b.Instrs[i].(*ssa.Return); isRet {
				return false
			}
		}
		if cut {
			continue
		}
		for _, su := range it.b.Succs {
			if !seen[su] {
				seen[su] = true
				q = append(q, item{su, 0})
			}
		}
	}
	return true
}

// c26CmsgPrefill: prepareWriteMessages writes the constant header of every slot at the same stride.
func c26CmsgPrefill(c *Ctx, s *c26Shape) {
	fn := c.Func(c26BW("prepareWriteMessages"))
	fLevel, fType := c.Field(unixPkg, "Cmsghdr", "Level"), c.Field(unixPkg, "Cmsghdr", "Type")
	kLevel, kType := c.ConstVal(unixPkg, "SOL_UDP"), c.ConstVal(unixPkg, "UDP_SEGMENT")
	if fn == nil || fLevel == nil || fType == nil || kLevel == nil || kType == nil {
		return
	}
	env := g11NewEnv(c27UnixPure)
	w := fn.Params[0]
	// the header cast: (*Cmsghdr)(unsafe.Pointer(&w.cmsg[k*w.cmsgSpace]))
	var hdr *ssa.Convert
	var kidx ssa.Value
	eachInstr(fn, func(in ssa.Instruction) {
		cv, ok := in.(*ssa.Convert)
		if !ok || !c27IsUnsafePointer(cv.X.Type()) {
			return
		}
		if pt, ok := cv.Type().Underlying().(*types.Pointer); !ok || !g11IsNamed(unixPkg, "Cmsghdr")(pt.Elem()) {
			return
		}
		if src, ok := cv.X.(*ssa.Convert); ok {
			if el, ok := g13ElemAddr(src.X); ok && el.F == s.fld("cmsg") && el.Base == ssa.Value(w) {
				if bo, ok := el.Idx.(*ssa.BinOp); ok && bo.Op == token.MUL {
					for _, p := range [][2]ssa.Value{{bo.X, bo.Y}, {bo.Y, bo.X}} {
						if b, ok := g13FieldLoadOf(p[1], s.fld("cmsgSpace")); ok && b == ssa.Value(w) {
							hdr, kidx = cv, p[0]
						}
					}
				}
			}
		}
	})
	if hdr == nil {
		c.Unknown("C26.cmsg", "prepareWriteMessages:prefill", "no (*Cmsghdr)(&w.cmsg[k*w.cmsgSpace]) cast found")
		return
	}
	lv, _ := constantInt64(kLevel)
	tv, _ := constantInt64(kType)
	got := map[string]bool{}
	for _, r := range *hdr.Referrers() {
		switch x := r.(type) {
		case *ssa.FieldAddr:
			for _, rr := range *x.Referrers() {
				if st, ok := rr.(*ssa.Store); ok && st.Addr == ssa.Value(x) {
					k, isC := constInt(st.Val)
					if fieldOfAddr(x) == fLevel && isC && k == lv {
						got["level"] = true
					}
					if fieldOfAddr(x) == fType && isC && k == tv {
						got["type"] = true
					}
				}
			}
		case *ssa.Call:
			if matchFunc(calleeObj(x), c26UdpFn("setCmsgLen")) && x.Call.Args[0] == ssa.Value(hdr) {
				if env.lin(x.Call.Args[1]).equal(g11Atom("call:" + unixPkg + ".CmsgLen(" + g11Const(2).String() + ")")) {
					got["len"] = true
				}
			}
		}
	}
	c.Check(got["level"] && got["type"] && got["len"], "C26.cmsg", "prepareWriteMessages:prefill:header", c.instrPos(hdr), "SOL_UDP / UDP_SEGMENT / CmsgLen(2)", "the pre-filled control header of a slot is not (SOL_UDP, UDP_SEGMENT, CmsgLen(2)) ("+setStr(got)+" matched): the kernel does not read the payload as a 16-bit segment size")
	K := innermostLoop(naturalLoops(fn), hdr.Block())
	covered := false
	if K != nil {
		for _, p := range fn.Params {
			if ok, _ := g13LoopCovers(env, K, kidx, g11Const(0), env.lin(p)); ok {
				covered = true
			}
		}
	}
	c.Check(covered, "C26.cmsg", "prepareWriteMessages:prefill:every-slot", c.instrPos(hdr), "k = 0 .. n-1 at stride cmsgSpace", "the control headers are not pre-filled for every slot k*cmsgSpace, k in [0,n): an entry's Control points at a slot without a UDP_SEGMENT header")
}

// ---------------------------------------------------------------------------------------
// planRun

func c26Plan(c *Ctx, s *c26Shape) {
	fn := c.Func(c26BW("planRun"))
	kMax := c.ConstVal("udp", "maxGSOBytes")
	if fn == nil || kMax == nil || len(fn.Params) != 5 {
		return
	}
	maxBytes, _ := constantInt64(kMax)
	env := g11NewEnv(nil)
	w, bufs, addrs, start, budget := fn.Params[0], fn.Params[1], fn.Params[2], fn.Params[3], fn.Params[4]
	startL := env.lin(start)
	loops := naturalLoops(fn)
	if len(loops) != 1 {
		c.Unknown("C26.plan", "planRun:loop", fmt.Sprintf("expected one loop, found %d", len(loops)))
		return
	}
	L := loops[0]
	// run length: header phi starting at 1, stepping by 1
	var rp *g13Ind
	for _, p := range g13HeaderPhis(L) {
		in := g13Induction(L, p)
		ok := len(in.Init) > 0 && len(in.Back) > 0
		for _, v := range in.Init {
			ok = ok && env.lin(v).equal(g11Const(1))
		}
		for _, b := range in.Back {
			ok = ok && env.lin(b.Val).sub(env.lin(p)).equal(g11Const(1))
		}
		if ok {
			rp = in
		}
	}
	if rp == nil {
		c.Unknown("C26.plan", "planRun:run-length", "no loop variable that starts at 1 and steps by 1")
		return
	}
	rL := env.lin(rp.Phi)
	// first = bufs[start], next = bufs[start+runLen]
	isFirst := func(v ssa.Value) bool { idx, ok := g13ParamElemLoad(v, bufs); return ok && env.lin(idx).equal(startL) }
	isNext := func(v ssa.Value) bool {
		idx, ok := g13ParamElemLoad(v, bufs)
		return ok && env.lin(idx).equal(startL.add(rL))
	}
	var segLens, nextLens []g11Lin
	eachInstr(fn, func(in ssa.Instruction) {
		if call, ok := in.(*ssa.Call); ok && builtinName(call) == "len" {
			if isFirst(call.Call.Args[0]) {
				segLens = append(segLens, env.lin(call))
			}
			if isNext(call.Call.Args[0]) && L.Body[call.Block()] {
				nextLens = append(nextLens, env.lin(call))
			}
		}
	})
	if len(segLens) == 0 || len(nextLens) == 0 {
		c.Unknown("C26.plan", "planRun:sizes", "len(bufs[start]) or len(bufs[start+runLen]) not found")
		return
	}
	// ---- results
	var leaves func(v ssa.Value, seen map[ssa.Value]bool, out *[]ssa.Value)
	leaves = func(v ssa.Value, seen map[ssa.Value]bool, out *[]ssa.Value) {
		if p, ok := v.(*ssa.Phi); ok && p != rp.Phi {
			if !seen[v] {
				seen[v] = true
				for _, e := range p.Edges {
					leaves(e, seen, out)
				}
			}
			return
		}
		*out = append(*out, v)
	}
	for i, r := range g11Returns(fn) {
		var ls []ssa.Value
		leaves(r.Results[0], map[ssa.Value]bool{}, &ls)
		multi, okR := false, true
		for _, v := range ls {
			lv := env.lin(v)
			if k, isC := lv.isConst(); isC {
				okR = okR && (k == 0 || k == 1)
			} else if d, isC := lv.constDiff(rL); isC && (d == 0 || d == 1) {
				multi = true
			} else {
				okR = false
			}
		}
		c.Check(okR, "C26.plan", fmt.Sprintf("planRun:return#%d:run-length", i), c.instrPos(r), "0, 1 or the run length", "planRun can return a run length that is not 0, 1 or the value its loop counted ("+exprString(r.Results[0])+"): datagrams that passed none of the run tests are packed into the entry")
		if multi {
			okS := false
			for _, sl := range segLens {
				okS = okS || env.lin(r.Results[1]).equal(sl)
			}
			c.Check(okS, "C26.plan", fmt.Sprintf("planRun:return#%d:segment-size", i), c.instrPos(r), "len(bufs[start])", "a multi-datagram run is returned with a segment size other than len(bufs[start]): the kernel cuts the run at boundaries that are not the datagram boundaries")
		}
	}
	// ---- extension guards: the increment runLen+1 is computed only behind them
	var incs []ssa.Instruction
	eachInstr(fn, func(in ssa.Instruction) {
		if bo, ok := in.(*ssa.BinOp); ok && L.Body[bo.Block()] && bo.Op == token.ADD && env.lin(bo).sub(rL).equal(g11Const(1)) {
			// uses as the next run length: a phi edge or a return value (an index start+runLen+1 is not)
			for _, r := range *bo.Referrers() {
				switch r.(type) {
				case *ssa.Phi, *ssa.Return:
					incs = append(incs, in)
					return
				}
			}
		}
	})
	if len(incs) == 0 {
		c.Unknown("C26.plan", "planRun:extend", "no runLen+1 found")
		return
	}
	var gLE, gGE1, gBytes, gGEseg []g11Cons
	for _, nl := range nextLens {
		gGE1 = append(gGE1, g11GEq(nl, g11Const(1)))
		for _, sl := range segLens {
			gLE = append(gLE, g11LEq(nl, sl))
			gGEseg = append(gGEseg, g11GEq(nl, sl))
		}
	}
	// total: header phi seeded with len(first), stepping by len(next)
	var tp *ssa.Phi
	for _, p := range g13HeaderPhis(L) {
		in := g13Induction(L, p)
		ok := p != rp.Phi && len(in.Init) > 0 && len(in.Back) > 0
		for _, v := range in.Init {
			m := false
			for _, sl := range segLens {
				m = m || env.lin(v).equal(sl)
			}
			ok = ok && m
		}
		for _, b := range in.Back {
			m := false
			for _, nl := range nextLens {
				m = m || env.lin(b.Val).sub(env.lin(p)).equal(nl)
			}
			ok = ok && m
		}
		if ok {
			tp = p
		}
	}
	if tp != nil {
		for _, nl := range nextLens {
			gBytes = append(gBytes, g11LEq(env.lin(tp).add(nl), g11Const(maxBytes)))
		}
	}
	isDst := func(v ssa.Value, idx g11Lin) bool {
		i, ok := g13ParamElemLoad(v, addrs)
		return ok && env.lin(i).equal(idx)
	}
	sameDst := gCmp("addrs[start+runLen] == addrs[start]", func(v ssa.Value) bool { return isDst(v, startL.add(rL)) }, func(v ssa.Value) bool { return isDst(v, startL) }, mustEqual)
	// the segment bound: some X with runLen < X tested, X = min(maxGSOSegments, iovBudget)
	var gSeg []g11Cons
	segL := g11Atom("ld(" + env.key(w) + ".maxGSOSegments)")
	for b := range L.Body {
		ifi, ok := b.Instrs[len(b.Instrs)-1].(*ssa.If)
		if !ok {
			continue
		}
		if cd := normCond(ifi.Cond); cd.Kind == CondCmp {
			bo := cd.Base.(*ssa.BinOp)
			for _, x := range []ssa.Value{bo.X, bo.Y} {
				if isMin, _ := c27IsMin(env, x, segL, env.lin(budget)); isMin {
					gSeg = append(gSeg, g11LEq(rL.add(g11Const(1)), env.lin(x)))
				}
			}
		}
	}
	for i, inc := range incs {
		cons := fmt.Sprintf("planRun:extend#%d", i)
		why := "a datagram is added to the run without it"
		c.g13CheckInstr("C26.plan", cons+":same-destination", fn, L.Header, inc, sameDst, why+": datagrams for two peers are sent as one superpacket to the first peer")
		c.g13CheckInstr("C26.plan", cons+":not-longer-than-first", fn, L.Header, inc, c.g11LinGuard("len(next) <= len(first)", env, gLE...), why+": the kernel cuts the superpacket every len(first) bytes, so a longer datagram is split in two")
		c.g13CheckInstr("C26.plan", cons+":not-empty", fn, L.Header, inc, c.g11LinGuard("len(next) >= 1", env, gGE1...), why+": an empty datagram contributes no segment and is counted as sent")
		if tp == nil {
			c.Bad("C26.plan", cons+":byte-limit", c.instrPos(inc), "no running total seeded with len(bufs[start]) and stepping by len(next): the byte limit of a UDP_SEGMENT send is not enforced")
		} else {
			c.g13CheckInstr("C26.plan", cons+":byte-limit", fn, L.Header, inc, c.g11LinGuard(fmt.Sprintf("total+len(next) <= %d", maxBytes), env, gBytes...), why+": the superpacket exceeds maxGSOBytes and the kernel refuses the whole run")
		}
		if len(gSeg) == 0 {
			c.Bad("C26.plan", cons+":segment-limit", c.instrPos(inc), "the run length is not tested against min(maxGSOSegments, iovBudget): a run can exceed the kernel's segment cap or the iovec scratch")
		} else {
			c.g13CheckInstr("C26.plan", cons+":segment-limit", fn, L.Header, inc, c.g11LinGuard("runLen+1 <= min(maxGSOSegments, iovBudget)", env, gSeg...), why+": a run can exceed the kernel's segment cap or the iovec scratch")
		}
	}
	for k, b := range rp.Back {
		c.g13CheckEdge("C26.plan", fmt.Sprintf("planRun:go-round#%d:short-is-last", k), fn, L.Header, b.Pred, L.Header, c.g11LinGuard("len(next) >= len(first)", env, gGEseg...), "the run is extended after a datagram shorter than the first: the kernel's equal-size cut puts the boundary inside the following datagram")
	}
	// ---- loop entry
	entry := L.Header.Instrs[0]
	var gS1, gSK []g11Cons
	for _, sl := range segLens {
		gS1 = append(gS1, g11GEq(sl, g11Const(1)))
		gSK = append(gSK, g11LEq(sl, g11Const(maxBytes)))
	}
	c.requireGuards("C26.plan", fn, []Sink{{Instr: entry, Desc: "run loop"}}, "run-loop",
		gValBool("gsoSupported", true, func(v ssa.Value) bool {
			b, ok := g13FieldLoadOf(v, s.fld("gsoSupported"))
			return ok && b == ssa.Value(w)
		}),
		c.g11LinGuard("len(first) >= 1", env, gS1...),
		c.g11LinGuard(fmt.Sprintf("len(first) <= %d", maxBytes), env, gSK...))
	c.Check(maxBytes >= 1 && maxBytes <= 65535, "C26.plan", "maxGSOBytes:fits-uint16", "udp/udp_linux_writebatch.go", "segment size fits the 16-bit UDP_SEGMENT payload", fmt.Sprintf("maxGSOBytes = %d does not fit the 16-bit UDP_SEGMENT payload: a large first datagram wraps to a small segment size", maxBytes))
}

// ---------------------------------------------------------------------------------------
// the syscall wrapper and its wiring

func c26Syscall(c *Ctx, s *c26Shape) {
	fn := c.Func(c26BW("sendmmsg"))
	kSys := c.ConstVal(unixPkg, "SYS_SENDMMSG")
	if fn == nil || kSys == nil || len(fn.Params) != 3 {
		return
	}
	sysNo, _ := constantInt64(kSys)
	w, start, n := fn.Params[0], fn.Params[1], fn.Params[2]
	var sys *ssa.Call
	eachInstr(fn, func(in ssa.Instruction) {
		if call, ok := in.(*ssa.Call); ok {
			if o := calleeObj(call); o != nil && o.Pkg() != nil && o.Pkg().Path() == unixPkg && (o.Name() == "Syscall6" || o.Name() == "Syscall" || o.Name() == "RawSyscall6") {
				if k, isC := constInt(call.Call.Args[0]); isC && k == sysNo {
					sys = call
				}
			}
		}
	})
	if sys == nil {
		c.Unknown("C26.syscall", "sendmmsg:syscall", "no unix.Syscall6(SYS_SENDMMSG, ...) found")
		return
	}
	a := sys.Call.Args
	el, okV := g13ElemAddr(stripValue(a[2]))
	okV = okV && el.F == s.fld("msgs") && el.Base == ssa.Value(w) && el.Idx == ssa.Value(start)
	c.Check(okV && stripValue(a[3]) == ssa.Value(n), "C26.syscall", "sendmmsg:window", c.instrPos(sys), "(&msgs[start], n)", "the kernel is not handed exactly the window (&w.msgs[start], n) the drain loop asked for: entries before the cursor are sent again")
	var r1, errno ssa.Value
	for _, r := range *sys.Referrers() {
		if ex, ok := r.(*ssa.Extract); ok {
			switch ex.Index {
			case 0:
				r1 = ex
			case 2:
				errno = ex
			}
		}
	}
	okRet := r1 != nil
	for _, r := range g11Returns(fn) {
		okRet = okRet && stripValue(r.Results[0]) == r1
	}
	c.Check(okRet, "C26.syscall", "sendmmsg:returns-kernel-count", c.instrPos(sys), "int(r1) on every return", "the wrapper does not return the kernel's own count on every return: the drain loop advances past entries that were not sent, or re-sends accepted ones")
	// repeated only after a call that failed entirely (errno != 0)
	failed := Guard{Name: "errno != 0", Match: func(cd Cond, _ *ssa.If) (bool, bool) {
		if cd.Kind != CondCmp || errno == nil {
			return false, false
		}
		bo := cd.Base.(*ssa.BinOp)
		var k int64
		var isC bool
		if stripValue(bo.X) == errno {
			k, isC = constInt(bo.Y)
		} else if stripValue(bo.Y) == errno {
			k, isC = constInt(bo.X)
		}
		if !isC {
			return false, false
		}
		op := bo.Op
		if cd.Neg {
			op = negOp(op)
		}
		switch {
		case op == token.EQL && k != 0:
			return true, true // errno == EINTR
		case op == token.NEQ && k == 0:
			return true, true
		case op == token.EQL && k == 0:
			return true, false
		}
		return false, false
	}}
	L := innermostLoop(naturalLoops(fn), sys.Block())
	if L == nil {
		c.OK("C26.syscall", "sendmmsg:retry", "the syscall is not repeated")
	} else {
		var bes []Edge
		for e := range g11BackEdges(L) {
			bes = append(bes, e)
		}
		sort.Slice(bes, func(i, j int) bool { return bes[i].From.Index < bes[j].From.Index })
		for nRetry, e := range bes {
			c.g13CheckEdge("C26.syscall", fmt.Sprintf("sendmmsg:retry#%d", nRetry), fn, sys.Block(), e.From, L.Header, failed, "the same window is submitted again after a call that may have sent part of it")
		}
	}
	// wiring
	funcs := c.moduleFuncs()
	nw, bad := 0, 0
	for _, ws := range fieldWriters(funcs, s.fld("sendFn")) {
		if c.isTestFile(ws.Instr.Pos()) || ws.Kind == "addr-escape" {
			continue
		}
		nw++
		st, isSt := ws.Instr.(*ssa.Store)
		okW := isSt && matchFunc(fnObj(ws.Fn), c26UdpFn("newBatchWriter"))
		if okW {
			mc, isMC := st.Val.(*ssa.MakeClosure)
			okW = isMC && len(mc.Bindings) == 1
			if okW {
				tgt := boundTarget(mc.Fn.(*ssa.Function))
				fa, _ := st.Addr.(*ssa.FieldAddr)
				okW = matchFunc(tgt, c26BW("sendmmsg")) && fa != nil && mc.Bindings[0] == fa.X
			}
		}
		if !okW {
			bad++
			c.Bad("C26.syscall", "batchWriter.sendFn:"+ws.Kind+"<-"+fnName(ws.Fn), c.instrPos(ws.Instr), "sendFn is assigned something other than the sendmmsg wrapper of the same writer, or outside newBatchWriter: the rules on the wrapper no longer describe what WriteBatch calls")
		}
	}
	if bad == 0 {
		if nw == 0 {
			c.Unknown("C26.syscall", "batchWriter.sendFn:writers", "sendFn is never assigned")
		} else {
			c.OK("C26.syscall", "batchWriter.sendFn:writers", fmt.Sprintf("%d assignment(s): newBatchWriter, w.sendmmsg", nw))
		}
	}
}
