package main

import (
	"fmt"
	"go/constant"
	"go/token"
	"go/types"
	"strings"

	"golang.org/x/tools/go/ssa"
)

// ---------------------------------------------------------------------------------------
// g1: path-sensitive symbolic propagation over go/ssa (K8 generalised to functions with calls,
// stores and bounded loops). Values are terms over the function's parameters: constants, field
// and element selections (by types.Object), uninterpreted calls (by callee object) and
// comparisons. Every path of the CFG is followed; a branch whose condition is not a constant
// forks the path and records the decision (atom, outcome). Small module callees and closures are
// inlined, so a guard that was extracted into a helper is seen exactly as if it were written in
// place. Nothing is executed and no solver is involved: two occurrences of a condition are
// related only when they are the same term (stable predicates), plus "t == k1 excludes t == k2".
// A rule then states a reference decision table over the recognised atoms and compares it with
// every path: which decisions a path to a given outcome must contain, and which calls / stores
// it must (not) have made.

type g1Kind uint8

const (
	g1KConst   g1Kind = iota // C
	g1KNil                   // nil pointer / map / slice / interface
	g1KZero                  // zero value of a struct / array type
	g1KRoot                  // a parameter (by role name), free variable or package-level variable
	g1KObj                   // an object allocated on this path (Alloc, MakeMap, MakeSlice)
	g1KRef                   // address of the lvalue Args[0]
	g1KField                 // Args[0].Obj
	g1KIndex                 // Args[0][Args[1]]
	g1KCall                  // uninterpreted call: Obj callee (nil: builtin / dynamic, see Name), Args (receiver first)
	g1KBin                   // Args[0] Op Args[1]; comparisons are normalised to == and <
	g1KNot                   // !Args[0]
	g1KExtract               // element Idx of the tuple Args[0]
	g1KTuple                 // results of an inlined call
	g1KHas                   // map Args[0] has key Args[1]
	g1KClosure               // function value Fn with bindings Args
	g1KOpaque                // anything else (Name)
)

type g1Val struct {
	K    g1Kind
	C    constant.Value
	Name string
	Obj  types.Object
	Op   token.Token
	Idx  int
	Args []*g1Val
	Fn   *ssa.Function
	Typ  types.Type
	key  string
}

func g1fin(v *g1Val) *g1Val {
	var sb strings.Builder
	arg := func(i int) string { return v.Args[i].key }
	switch v.K {
	case g1KConst:
		sb.WriteString(v.C.ExactString())
	case g1KNil:
		sb.WriteString("nil")
	case g1KZero:
		sb.WriteString("zero")
	case g1KRoot:
		sb.WriteString(v.Name)
	case g1KObj:
		sb.WriteString("#" + v.Name)
	case g1KRef:
		sb.WriteString("&" + arg(0))
	case g1KField:
		sb.WriteString(arg(0) + "." + v.Obj.Name())
	case g1KIndex:
		sb.WriteString(arg(0) + "[" + arg(1) + "]")
	case g1KCall:
		n := v.Name
		if f, ok := v.Obj.(*types.Func); ok {
			n = f.FullName()
		}
		sb.WriteString(n + "(")
		for i := range v.Args {
			if i > 0 {
				sb.WriteString(",")
			}
			sb.WriteString(arg(i))
		}
		sb.WriteString(")")
	case g1KBin:
		sb.WriteString("(" + arg(0) + v.Op.String() + arg(1) + ")")
	case g1KNot:
		sb.WriteString("!" + arg(0))
	case g1KExtract:
		sb.WriteString(fmt.Sprintf("%s#%d", arg(0), v.Idx))
	case g1KTuple:
		sb.WriteString("<")
		for i := range v.Args {
			sb.WriteString(arg(i) + ";")
		}
		sb.WriteString(">")
	case g1KHas:
		sb.WriteString("has(" + arg(0) + "," + arg(1) + ")")
	case g1KClosure:
		sb.WriteString("func:" + v.Fn.String())
		for i := range v.Args {
			sb.WriteString("{" + arg(i) + "}")
		}
	case g1KOpaque:
		sb.WriteString("?" + v.Name)
	}
	v.key = sb.String()
	return v
}

// String renders a term for reports (module path elided).
func (v *g1Val) String() string {
	if v == nil {
		return "<none>"
	}
	s := strings.ReplaceAll(v.key, nebulaMod+"/", "")
	s = strings.ReplaceAll(s, nebulaMod+".", "")
	s = strings.ReplaceAll(s, "github.com/gaissmai/", "")
	if len(s) > 220 {
		s = s[:220] + "…"
	}
	return s
}

var g1NilV = g1fin(&g1Val{K: g1KNil})

func g1Const(c constant.Value) *g1Val { return g1fin(&g1Val{K: g1KConst, C: c}) }
func g1Bool(b bool) *g1Val            { return g1Const(constant.MakeBool(b)) }
func g1Int(i int64) *g1Val            { return g1Const(constant.MakeInt64(i)) }
func g1Root(name string, t types.Type) *g1Val {
	return g1fin(&g1Val{K: g1KRoot, Name: name, Typ: t})
}
func g1Opaque(name string, t types.Type) *g1Val {
	return g1fin(&g1Val{K: g1KOpaque, Name: name, Typ: t})
}
func g1Ref(l *g1Val) *g1Val { return g1fin(&g1Val{K: g1KRef, Args: []*g1Val{l}}) }

// g1Strip removes address-of: selections auto-dereference, as in Go source.
func g1Strip(v *g1Val) *g1Val {
	for v != nil && v.K == g1KRef {
		v = v.Args[0]
	}
	return v
}

func g1Field(b *g1Val, f *types.Var) *g1Val {
	return g1fin(&g1Val{K: g1KField, Obj: f, Args: []*g1Val{g1Strip(b)}, Typ: f.Type()})
}

func g1ElemType(t types.Type) types.Type {
	if t == nil {
		return nil
	}
	switch u := t.Underlying().(type) {
	case *types.Slice:
		return u.Elem()
	case *types.Array:
		return u.Elem()
	case *types.Map:
		return u.Elem()
	case *types.Pointer:
		return g1ElemType(u.Elem())
	}
	return nil
}

func g1Index(b, i *g1Val) *g1Val {
	b = g1Strip(b)
	return g1fin(&g1Val{K: g1KIndex, Args: []*g1Val{b, i}, Typ: g1ElemType(b.Typ)})
}

func g1CallT(obj *types.Func, name string, args []*g1Val, t types.Type) *g1Val {
	v := &g1Val{K: g1KCall, Name: name, Args: args, Typ: t}
	if obj != nil {
		v.Obj = obj
	}
	return g1fin(v)
}

func g1Extract(t *g1Val, i int, typ types.Type) *g1Val {
	if t.K == g1KTuple && i < len(t.Args) {
		return t.Args[i]
	}
	return g1fin(&g1Val{K: g1KExtract, Idx: i, Args: []*g1Val{t}, Typ: typ})
}

func (v *g1Val) boolConst() (bool, bool) {
	if v.K == g1KConst && v.C.Kind() == constant.Bool {
		return constant.BoolVal(v.C), true
	}
	return false, false
}

func g1Not(a *g1Val) *g1Val {
	if b, ok := a.boolConst(); ok {
		return g1Bool(!b)
	}
	if a.K == g1KNot {
		return a.Args[0]
	}
	return g1fin(&g1Val{K: g1KNot, Args: []*g1Val{a}, Typ: a.Typ})
}

// g1StripNot returns the atom under negations and whether it is negated.
func g1StripNot(v *g1Val) (*g1Val, bool) {
	if v.K == g1KNot {
		return v.Args[0], true
	}
	return v, false
}

func g1ZeroOf(t types.Type) *g1Val {
	if t == nil {
		return g1fin(&g1Val{K: g1KZero})
	}
	switch u := t.Underlying().(type) {
	case *types.Basic:
		switch {
		case u.Info()&types.IsBoolean != 0:
			return g1Bool(false)
		case u.Info()&types.IsString != 0:
			return g1Const(constant.MakeString(""))
		case u.Info()&types.IsNumeric != 0:
			return g1Int(0)
		}
		return g1NilV
	case *types.Pointer, *types.Map, *types.Slice, *types.Chan, *types.Signature, *types.Interface:
		return g1NilV
	}
	return g1fin(&g1Val{K: g1KZero, Typ: t})
}

// g1NonNil: addresses, fresh objects, function values, package-level error variables (sentinels,
// as in definitelyNonNil) and freshly made errors are never nil.
func g1NonNil(v *g1Val) bool {
	switch v.K {
	case g1KRef, g1KObj, g1KClosure:
		return true
	case g1KRoot:
		return v.Obj != nil && v.Typ != nil && isErrorType(v.Typ)
	case g1KCall:
		if f, ok := v.Obj.(*types.Func); ok && f.Pkg() != nil {
			switch f.Pkg().Path() + "." + f.Name() {
			case "fmt.Errorf", "errors.New":
				return true
			}
		}
	}
	return false
}

// g1Bin builds a binary term. Comparisons are normalised to == and < (with negation), constants
// are folded, and (x+c1)+c2 is folded so that loop counters read "start+k".
func g1Bin(op token.Token, a, b *g1Val, t types.Type) *g1Val {
	switch op {
	case token.NEQ:
		return g1Not(g1Bin(token.EQL, a, b, t))
	case token.GTR:
		return g1Bin(token.LSS, b, a, t)
	case token.GEQ:
		return g1Not(g1Bin(token.LSS, a, b, t))
	case token.LEQ:
		return g1Not(g1Bin(token.LSS, b, a, t))
	}
	if a.K == g1KConst && b.K == g1KConst {
		if r := g1Fold(op, a.C, b.C); r != nil {
			return g1Const(r)
		}
	}
	isInt := func(v *g1Val) bool { return v.K == g1KConst && v.C.Kind() == constant.Int }
	switch op {
	case token.EQL:
		if a.key == b.key {
			return g1Bool(true)
		}
		if (a.K == g1KNil && g1NonNil(b)) || (b.K == g1KNil && g1NonNil(a)) {
			return g1Bool(false)
		}
		if bv, ok := b.boolConst(); ok {
			if bv {
				return a
			}
			return g1Not(a)
		}
		if av, ok := a.boolConst(); ok {
			if av {
				return b
			}
			return g1Not(b)
		}
		aC, bC := a.K == g1KConst || a.K == g1KNil, b.K == g1KConst || b.K == g1KNil
		if (aC && !bC) || (aC == bC && a.key > b.key) {
			a, b = b, a
		}
	case token.LSS:
		if a.key == b.key {
			return g1Bool(false)
		}
	case token.ADD:
		if isInt(a) && !isInt(b) {
			a, b = b, a
		}
		if isInt(b) && a.K == g1KBin && a.Op == token.ADD && isInt(a.Args[1]) {
			return g1Bin(token.ADD, a.Args[0], g1Const(constant.BinaryOp(a.Args[1].C, token.ADD, b.C)), t)
		}
		if isInt(b) && constant.Sign(b.C) == 0 {
			return a
		}
	case token.SUB:
		if isInt(b) {
			return g1Bin(token.ADD, a, g1Const(constant.UnaryOp(token.SUB, b.C, 0)), t)
		}
	}
	return g1fin(&g1Val{K: g1KBin, Op: op, Args: []*g1Val{a, b}, Typ: t})
}

func g1Fold(op token.Token, a, b constant.Value) (r constant.Value) {
	defer func() {
		if recover() != nil {
			r = nil
		}
	}()
	switch op {
	case token.EQL, token.LSS:
		if a.Kind() == constant.Bool && op != token.EQL {
			return nil
		}
		return constant.MakeBool(constant.Compare(a, op, b))
	case token.SHL, token.SHR:
		s, ok := constant.Uint64Val(b)
		if !ok || s > 64 {
			return nil
		}
		return constant.Shift(a, op, uint(s))
	case token.QUO, token.REM:
		if constant.Sign(b) == 0 {
			return nil
		}
		if op == token.QUO && a.Kind() == constant.Int {
			op = token.QUO_ASSIGN
		}
	}
	return constant.BinaryOp(a, op, b)
}

func g1RootOf(v *g1Val) *g1Val {
	for {
		switch v.K {
		case g1KRef, g1KField, g1KIndex:
			v = v.Args[0]
		default:
			return v
		}
	}
}

// ---------------------------------------------------------------------------------------
// per-path state

type g1Lit struct {
	Atom *g1Val
	Val  bool
	At   ssa.Instruction
}

type g1Event struct {
	Kind   string      // call | store | go | defer
	Callee *types.Func // call: the callee (nil for dynamic calls)
	Args   []*g1Val    // call: receiver first
	Res    *g1Val      // call: the result term
	LV     *g1Val      // store: the lvalue (not rooted at an object allocated on this path)
	Val    *g1Val      // store: the value
	At     ssa.Instruction
	NLits  int // number of decisions taken before the event
}

type g1State struct {
	mem   map[string]*g1Val
	has   map[string]bool
	lits  []g1Lit
	known map[string]bool
	eqc   map[string]constant.Value
	evs   []g1Event
	nobj  int
	iter  map[string]int
	notes []string
	end   ssa.Instruction
	// unfollowed: result terms of module functions that were neither inlined nor tabled as atoms
	unfollowed map[string]string
}

func g1NewState() *g1State {
	return &g1State{mem: map[string]*g1Val{}, has: map[string]bool{}, known: map[string]bool{}, eqc: map[string]constant.Value{}, iter: map[string]int{}, unfollowed: map[string]string{}}
}

func (st *g1State) clone() *g1State {
	n := &g1State{mem: make(map[string]*g1Val, len(st.mem)), has: make(map[string]bool, len(st.has)), known: make(map[string]bool, len(st.known)),
		eqc: make(map[string]constant.Value, len(st.eqc)), iter: make(map[string]int, len(st.iter)), nobj: st.nobj, end: st.end, unfollowed: make(map[string]string, len(st.unfollowed))}
	for k, v := range st.unfollowed {
		n.unfollowed[k] = v
	}
	for k, v := range st.mem {
		n.mem[k] = v
	}
	for k, v := range st.has {
		n.has[k] = v
	}
	for k, v := range st.known {
		n.known[k] = v
	}
	for k, v := range st.eqc {
		n.eqc[k] = v
	}
	for k, v := range st.iter {
		n.iter[k] = v
	}
	n.lits = append([]g1Lit(nil), st.lits...)
	n.evs = append([]g1Event(nil), st.evs...)
	n.notes = append([]string(nil), st.notes...)
	return n
}

func (st *g1State) lookup(atom *g1Val) (bool, bool) {
	if v, ok := st.known[atom.key]; ok {
		return v, true
	}
	if atom.K == g1KBin && atom.Op == token.EQL && atom.Args[1].K == g1KConst {
		if c, ok := st.eqc[atom.Args[0].key]; ok && c.Kind() == atom.Args[1].C.Kind() {
			return constant.Compare(c, token.EQL, atom.Args[1].C), true
		}
	}
	// a length is never negative: len(x) == 0 and 0 < len(x) decide each other
	isLen := func(v *g1Val) bool { return v.K == g1KCall && v.Obj == nil && v.Name == "len" }
	isZero := func(v *g1Val) bool { return v.K == g1KConst && v.C.Kind() == constant.Int && constant.Sign(v.C) == 0 }
	if atom.K == g1KBin && len(atom.Args) == 2 {
		switch {
		case atom.Op == token.EQL && isLen(atom.Args[0]) && isZero(atom.Args[1]):
			if v, ok := st.known[g1Bin(token.LSS, g1Int(0), atom.Args[0], nil).key]; ok {
				return !v, true
			}
		case atom.Op == token.LSS && isZero(atom.Args[0]) && isLen(atom.Args[1]):
			if v, ok := st.known[g1Bin(token.EQL, atom.Args[1], g1Int(0), nil).key]; ok {
				return !v, true
			}
		}
	}
	return false, false
}

func (st *g1State) assume(atom *g1Val, val bool, at ssa.Instruction) {
	st.known[atom.key] = val
	st.lits = append(st.lits, g1Lit{atom, val, at})
	if val && atom.K == g1KBin && atom.Op == token.EQL && atom.Args[1].K == g1KConst {
		st.eqc[atom.Args[0].key] = atom.Args[1].C
	}
}

func g1HasSub(mem map[string]*g1Val, key string) bool {
	for k := range mem {
		if strings.HasPrefix(k, key) && len(k) > len(key) && (k[len(key)] == '.' || k[len(key)] == '[') {
			return true
		}
	}
	return false
}

// read returns the content of lvalue L: what was stored on this path, the zero value for a part of
// a fresh object that was never written, else the selection itself (symbolic content).
func (st *g1State) read(L *g1Val) *g1Val {
	if v, ok := st.mem[L.key]; ok {
		return v
	}
	switch L.K {
	case g1KField, g1KIndex:
		base := L.Args[0]
		bv := base
		if base.K == g1KObj || base.K == g1KField || base.K == g1KIndex {
			bv = st.read(base)
		}
		if bv.K == g1KZero || bv.K == g1KNil {
			return g1ZeroOf(L.Typ)
		}
		nl := L
		if bv.key != base.key {
			if L.K == g1KField {
				nl = g1Field(bv, L.Obj.(*types.Var))
			} else {
				nl = g1Index(bv, L.Args[1])
				if nl.Typ == nil {
					nl.Typ = L.Typ
				}
			}
			if v, ok := st.mem[nl.key]; ok {
				return v
			}
		}
		if g1RootOf(nl).K == g1KObj {
			return g1ZeroOf(L.Typ)
		}
		return nl
	case g1KObj:
		if g1HasSub(st.mem, L.key) {
			return L
		}
		return g1ZeroOf(L.Typ)
	}
	return L
}

func (st *g1State) store(L, v *g1Val, at ssa.Instruction) {
	for k := range st.mem {
		if strings.HasPrefix(k, L.key) && len(k) > len(L.key) && (k[len(L.key)] == '.' || k[len(L.key)] == '[') {
			delete(st.mem, k)
		}
	}
	st.mem[L.key] = v
	if g1RootOf(L).K != g1KObj {
		st.evs = append(st.evs, g1Event{Kind: "store", LV: L, Val: v, At: at, NLits: len(st.lits)})
	}
}

// g1Path is one explored path of the root function.
type g1Path struct {
	Res   []*g1Val
	Lits  []g1Lit
	Evs   []g1Event
	Mem   map[string]*g1Val
	Panic bool
	Notes []string
	End   ssa.Instruction
	// Unfollowed: result terms of module functions the explorer did not look into (key -> function)
	Unfollowed map[string]string
}

// ---------------------------------------------------------------------------------------
// the explorer

type g1Sym struct {
	c *Ctx
	// Stop: callees that are never inlined (the atoms of the rule); every other small loop-free
	// module function and every closure is inlined.
	Stop []Ref
	// Inline overrides the default policy for module functions that are not in Stop.
	Inline      func(*ssa.Function) bool
	MaxVisits   int  // visits of one block per activation (loop bound); default 4
	MaxPaths    int  // default 20000
	MaxDepth    int  // default 5
	ForkResults bool // fork on symbolic boolean results of the root function
	Paths, Cut  int
	Err         string
	out         []*g1Path
	reach       map[*ssa.Function]string
	rootPkg     string
}

type g1Frame struct {
	fn     *ssa.Function
	vals   map[ssa.Value]*g1Val
	visits map[*ssa.BasicBlock]int
	stack  []*ssa.Function
}

func (fr *g1Frame) clone() *g1Frame {
	n := &g1Frame{fn: fr.fn, vals: make(map[ssa.Value]*g1Val, len(fr.vals)+8), visits: make(map[*ssa.BasicBlock]int, len(fr.visits)), stack: fr.stack}
	for k, v := range fr.vals {
		n.vals[k] = v
	}
	for k, v := range fr.visits {
		n.visits[k] = v
	}
	return n
}

type g1Cont func(res []*g1Val, st *g1State, panicked bool)

// Explore follows every path of fn. roles names the parameters (receiver first); "" keeps "p<i>".
func (g *g1Sym) Explore(fn *ssa.Function, roles ...string) []*g1Path {
	if g.MaxVisits == 0 {
		g.MaxVisits = 4
	}
	if g.MaxPaths == 0 {
		g.MaxPaths = 20000
	}
	if g.MaxDepth == 0 {
		g.MaxDepth = 5
	}
	g.reach = map[*ssa.Function]string{}
	g.out, g.Paths, g.Cut, g.Err = nil, 0, 0, ""
	g.rootPkg = pkgPathOf(fn)
	fr := &g1Frame{fn: fn, vals: map[ssa.Value]*g1Val{}, visits: map[*ssa.BasicBlock]int{}}
	for i, p := range fn.Params {
		name := fmt.Sprintf("p%d", i)
		if i < len(roles) && roles[i] != "" {
			name = roles[i]
		}
		fr.vals[p] = g1Root(name, p.Type())
	}
	for i, fv := range fn.FreeVars {
		fr.vals[fv] = g1Ref(g1Root(fmt.Sprintf("free%d", i), nil))
	}
	sig := fn.Signature.Results()
	var emit func(i int, res []*g1Val, st *g1State, panicked bool)
	emit = func(i int, res []*g1Val, st *g1State, panicked bool) {
		if !panicked && g.ForkResults {
			for ; i < len(res); i++ {
				r := res[i]
				if b, ok := sig.At(i).Type().Underlying().(*types.Basic); !ok || b.Kind() != types.Bool || r.K == g1KConst {
					continue
				}
				atom, neg := g1StripNot(r)
				if v, ok := st.lookup(atom); ok {
					res[i] = g1Bool(v != neg)
					continue
				}
				for _, choice := range []bool{true, false} {
					st2 := st.clone()
					st2.assume(atom, choice, st.end)
					res2 := append([]*g1Val(nil), res...)
					res2[i] = g1Bool(choice != neg)
					emit(i+1, res2, st2, false)
				}
				return
			}
		}
		g.Paths++
		if g.Paths > g.MaxPaths {
			g.Err = fmt.Sprintf("more than %d paths", g.MaxPaths)
			return
		}
		g.out = append(g.out, &g1Path{Res: res, Lits: st.lits, Evs: st.evs, Mem: st.mem, Panic: panicked, Notes: st.notes, End: st.end, Unfollowed: st.unfollowed})
	}
	g.exec(fr, fn.Blocks[0], 0, nil, g1NewState(), func(res []*g1Val, st *g1State, panicked bool) { emit(0, res, st, panicked) })
	return g.out
}

func (g *g1Sym) val(fr *g1Frame, v ssa.Value) *g1Val {
	if x, ok := fr.vals[v]; ok {
		return x
	}
	switch x := v.(type) {
	case *ssa.Const:
		if x.Value == nil {
			return g1ZeroOf(x.Type())
		}
		c := g1Const(x.Value)
		c.Typ = x.Type()
		return c
	case *ssa.Global:
		n := x.Name()
		if x.Pkg != nil {
			n = x.Pkg.Pkg.Path() + "." + n
		}
		r := g1Root(n, g1ElemOfPtr(x.Type()))
		r.Obj = x.Object()
		return g1Ref(r)
	case *ssa.Function:
		return g1fin(&g1Val{K: g1KClosure, Fn: x})
	}
	return g1Opaque("unbound:"+v.Name(), v.Type())
}

func g1ElemOfPtr(t types.Type) types.Type {
	if p, ok := t.Underlying().(*types.Pointer); ok {
		return p.Elem()
	}
	return nil
}

func (g *g1Sym) exec(fr *g1Frame, b *ssa.BasicBlock, i int, prev *ssa.BasicBlock, st *g1State, k g1Cont) {
	for {
		if g.Err != "" {
			return
		}
		if i == 0 {
			fr.visits[b]++
			if fr.visits[b] > g.MaxVisits {
				g.Cut++
				return
			}
			// phis read the values of the edge taken, simultaneously
			var phis []*ssa.Phi
			var pv []*g1Val
			for _, in := range b.Instrs {
				phi, ok := in.(*ssa.Phi)
				if !ok {
					break
				}
				e := -1
				for j, p := range b.Preds {
					if p == prev {
						e = j
					}
				}
				if e < 0 {
					g.Err = "phi without predecessor in " + fr.fn.String()
					return
				}
				phis = append(phis, phi)
				pv = append(pv, g.val(fr, phi.Edges[e]))
			}
			for j, phi := range phis {
				fr.vals[phi] = pv[j]
			}
			i = len(phis)
		}
		next := false
	instrs:
		for ; i < len(b.Instrs); i++ {
			switch x := b.Instrs[i].(type) {
			case *ssa.DebugRef:
			case *ssa.If:
				cv := g.val(fr, x.Cond)
				take, decided := cv.boolConst()
				if !decided {
					atom, neg := g1StripNot(cv)
					if v, ok := st.lookup(atom); ok {
						take = v != neg
					} else {
						// fork: the false outcome is followed first, on a copy
						fr2, st2 := fr.clone(), st.clone()
						st2.assume(atom, neg, x) // cond false <=> atom == neg
						g.exec(fr2, b.Succs[1], 0, b, st2, k)
						st.assume(atom, !neg, x)
						take = true
					}
				}
				if take {
					prev, b = b, b.Succs[0]
				} else {
					prev, b = b, b.Succs[1]
				}
				next = true
				break instrs
			case *ssa.Jump:
				prev, b = b, b.Succs[0]
				next = true
				break instrs
			case *ssa.Return:
				var res []*g1Val
				for _, r := range x.Results {
					res = append(res, g.val(fr, r))
				}
				if len(fr.stack) == 0 {
					st.end = x
				}
				k(res, st, false)
				return
			case *ssa.Panic:
				if len(fr.stack) == 0 {
					st.end = x
				}
				k(nil, st, true)
				return
			case *ssa.Store:
				a := g.val(fr, x.Addr)
				st.store(g1Strip(a), g.val(fr, x.Val), x)
			case *ssa.MapUpdate:
				L := g1Index(g.val(fr, x.Map), g.val(fr, x.Key))
				st.store(L, g.val(fr, x.Value), x)
				st.has[L.key] = true
			case *ssa.Send, *ssa.RunDefers:
			case *ssa.Go, *ssa.Defer:
				ci := x.(ssa.CallInstruction)
				kind := "go"
				if _, ok := x.(*ssa.Defer); ok {
					kind = "defer"
					st.notes = append(st.notes, "deferred call not modelled in "+fr.fn.Name())
				}
				st.evs = append(st.evs, g1Event{Kind: kind, Callee: calleeObj(ci), Args: g.args(fr, ci), At: x, NLits: len(st.lits)})
			case *ssa.Call:
				pos, blk, pv := i, b, prev
				g.call(fr, st, x, func(res []*g1Val, st2 *g1State, panicked bool) {
					if panicked {
						k(nil, st2, true)
						return
					}
					fr2 := fr.clone()
					switch len(res) {
					case 0:
						fr2.vals[x] = g1Opaque("void", nil)
					case 1:
						fr2.vals[x] = res[0]
					default:
						fr2.vals[x] = g1fin(&g1Val{K: g1KTuple, Args: res})
					}
					g.exec(fr2, blk, pos+1, pv, st2, k)
				})
				return
			case ssa.Value:
				fr.vals[x] = g.eval(fr, st, x)
			}
		}
		if !next {
			g.Err = "fell off block in " + fr.fn.String()
			return
		}
		i = 0
	}
}

func (g *g1Sym) args(fr *g1Frame, ci ssa.CallInstruction) []*g1Val {
	var out []*g1Val
	for _, a := range callArgs(ci) {
		out = append(out, g.val(fr, a))
	}
	return out
}

func (g *g1Sym) eval(fr *g1Frame, st *g1State, v ssa.Value) *g1Val {
	switch x := v.(type) {
	case *ssa.Alloc:
		st.nobj++
		return g1Ref(g1fin(&g1Val{K: g1KObj, Name: fmt.Sprintf("%d:%s", st.nobj, x.Comment), Typ: g1ElemOfPtr(x.Type())}))
	case *ssa.MakeMap, *ssa.MakeSlice, *ssa.MakeChan:
		st.nobj++
		return g1fin(&g1Val{K: g1KObj, Name: fmt.Sprintf("%d:make", st.nobj), Typ: v.Type()})
	case *ssa.MakeClosure:
		c := &g1Val{K: g1KClosure, Fn: x.Fn.(*ssa.Function)}
		for _, b := range x.Bindings {
			c.Args = append(c.Args, g.val(fr, b))
		}
		return g1fin(c)
	case *ssa.MakeInterface:
		return g.val(fr, x.X)
	case *ssa.ChangeInterface:
		return g.val(fr, x.X)
	case *ssa.ChangeType:
		return g.val(fr, x.X)
	case *ssa.Convert:
		return g.val(fr, x.X)
	case *ssa.MultiConvert:
		return g.val(fr, x.X)
	case *ssa.SliceToArrayPointer:
		return g.val(fr, x.X)
	case *ssa.FieldAddr:
		return g1Ref(g1Field(g.val(fr, x.X), fieldOfAddr(x)))
	case *ssa.Field:
		return st.read(g1Field(g.val(fr, x.X), fieldOfVal(x)))
	case *ssa.IndexAddr:
		return g1Ref(g1Index(g.val(fr, x.X), g.val(fr, x.Index)))
	case *ssa.Index:
		return st.read(g1Index(g.val(fr, x.X), g.val(fr, x.Index)))
	case *ssa.Lookup:
		m, kv := g.val(fr, x.X), g.val(fr, x.Index)
		L := g1Index(m, kv)
		if L.Typ == nil {
			L.Typ = g1ElemType(x.X.Type())
		}
		val := st.read(L)
		if !x.CommaOk {
			return val
		}
		var has *g1Val
		if h, ok := st.has[L.key]; ok {
			has = g1Bool(h)
		} else if g1Strip(m).K == g1KObj || m.K == g1KNil {
			has = g1Bool(false)
		} else {
			has = g1fin(&g1Val{K: g1KHas, Args: []*g1Val{g1Strip(m), kv}})
		}
		return g1fin(&g1Val{K: g1KTuple, Args: []*g1Val{val, has}})
	case *ssa.UnOp:
		a := g.val(fr, x.X)
		switch x.Op {
		case token.MUL:
			return st.read(g1Strip(a))
		case token.NOT:
			return g1Not(a)
		case token.SUB:
			if a.K == g1KConst {
				return g1Const(constant.UnaryOp(token.SUB, a.C, 0))
			}
			return g1Bin(token.SUB, g1Int(0), a, x.Type())
		}
		st.nobj++
		return g1Opaque(fmt.Sprintf("%s%d", x.Op, st.nobj), x.Type())
	case *ssa.BinOp:
		return g1Bin(x.Op, g.val(fr, x.X), g.val(fr, x.Y), x.Type())
	case *ssa.Extract:
		return g1Extract(g.val(fr, x.Tuple), x.Index, x.Type())
	case *ssa.Slice:
		as := []*g1Val{g.val(fr, x.X)}
		for _, o := range []ssa.Value{x.Low, x.High} {
			if o != nil {
				as = append(as, g.val(fr, o))
			} else {
				as = append(as, g1NilV)
			}
		}
		return g1CallT(nil, "slice", as, x.Type())
	case *ssa.TypeAssert:
		a := g.val(fr, x.X)
		if !x.CommaOk {
			return a
		}
		return g1fin(&g1Val{K: g1KTuple, Args: []*g1Val{a, g1CallT(nil, "is:"+x.AssertedType.String(), []*g1Val{a}, nil)}})
	case *ssa.Range:
		return g1CallT(nil, "range", []*g1Val{g.val(fr, x.X)}, nil)
	case *ssa.Next:
		r := g.val(fr, x.Iter)
		n := g1Int(int64(st.iter[r.key]))
		st.iter[r.key]++
		return g1fin(&g1Val{K: g1KTuple, Args: []*g1Val{g1CallT(nil, "next-ok", []*g1Val{r, n}, nil), g1CallT(nil, "next-key", []*g1Val{r, n}, nil), g1CallT(nil, "next-val", []*g1Val{r, n}, nil)}})
	}
	st.nobj++
	return g1Opaque(fmt.Sprintf("%T%d", v, st.nobj), v.Type())
}

func (g *g1Sym) shouldInline(fn *ssa.Function, fr *g1Frame) bool {
	if fn == nil || len(fn.Blocks) == 0 || matchAny(fnObj(fn), g.Stop) || len(fr.stack) >= g.MaxDepth {
		return false
	}
	if fn == fr.fn {
		return false
	}
	for _, f := range fr.stack {
		if f == fn {
			return false
		}
	}
	if !strings.HasPrefix(pkgPathOf(fn), nebulaMod) {
		return false
	}
	if fn.Parent() != nil {
		return true // closures are part of the function being analysed
	}
	if g.Inline != nil {
		return g.Inline(fn)
	}
	// a guard extracted into a helper lives next to its user: same package, small, loop-free
	return pkgPathOf(fn) == g.rootPkg && len(fn.Blocks) <= 30 && len(naturalLoops(fn)) == 0
}

// reaches: an opaque module callee that can (statically) reach an atom makes the path inexact.
func (g *g1Sym) reaches(fn *ssa.Function) string {
	if r, ok := g.reach[fn]; ok {
		return r
	}
	g.reach[fn] = ""
	r := ""
	for _, f := range reachableFuncs([]*ssa.Function{fn}, func(f *ssa.Function) bool { return strings.HasPrefix(pkgPathOf(f), nebulaMod) }) {
		if f != fn && matchAny(fnObj(f), g.Stop) {
			r = fnName(f)
			break
		}
	}
	g.reach[fn] = r
	return r
}

func (g *g1Sym) call(fr *g1Frame, st *g1State, x *ssa.Call, k g1Cont) {
	cc := x.Common()
	args := g.args(fr, x)
	one := func(v *g1Val) { k([]*g1Val{v}, st, false) }
	if bn := builtinName(x); bn != "" {
		switch bn {
		case "len", "cap":
			if args[0].K == g1KConst && args[0].C.Kind() == constant.String {
				one(g1Int(int64(len(constant.StringVal(args[0].C)))))
				return
			}
			if args[0].K == g1KNil {
				one(g1Int(0))
				return
			}
		case "delete":
			L := g1Index(args[0], args[1])
			st.store(L, g1ZeroOf(L.Typ), x)
			st.has[L.key] = false
		}
		one(g1CallT(nil, bn, args, x.Type()))
		return
	}
	var fn *ssa.Function
	var bind []*g1Val
	var fv *g1Val
	if !cc.IsInvoke() {
		fv = g.val(fr, cc.Value)
		if fv.K == g1KClosure {
			fn, bind = fv.Fn, fv.Args
		}
	}
	if fn != nil && g.shouldInline(fn, fr) {
		nf := &g1Frame{fn: fn, vals: map[ssa.Value]*g1Val{}, visits: map[*ssa.BasicBlock]int{}, stack: append(append([]*ssa.Function(nil), fr.stack...), fr.fn)}
		for i, p := range fn.Params {
			if i < len(args) {
				nf.vals[p] = args[i]
			}
		}
		for i, f := range fn.FreeVars {
			if i < len(bind) {
				nf.vals[f] = bind[i]
			}
		}
		g.exec(nf, fn.Blocks[0], 0, nil, st, k)
		return
	}
	// an opaque iterator called with a yield closure (range-over-func): it calls yield some number
	// of times, until yield returns false
	if fn == nil && fv != nil {
		for _, a := range args {
			if a.K == g1KClosure && g1IsYield(a.Fn) && g.shouldInline(a.Fn, fr) {
				g.iterate(fr, st, x, fv, a, 0, k)
				return
			}
		}
	}
	obj := calleeObj(x)
	name := ""
	if obj == nil {
		name = "dyn"
		if fv != nil {
			args = append([]*g1Val{fv}, args...)
		}
	}
	res := g1CallT(obj, name, args, x.Type())
	st.evs = append(st.evs, g1Event{Kind: "call", Callee: obj, Args: args, Res: res, At: x, NLits: len(st.lits)})
	// out-parameters: an object of this path whose address is handed to the callee holds, from
	// here on, whatever the callee left there
	for i, a := range args {
		if L := g1Strip(a); a.K == g1KRef && g1RootOf(L).K == g1KObj {
			for k := range st.mem {
				if strings.HasPrefix(k, L.key) && len(k) > len(L.key) && (k[len(L.key)] == '.' || k[len(L.key)] == '[') {
					delete(st.mem, k)
				}
			}
			st.mem[L.key] = g1CallT(nil, "out", []*g1Val{res, g1Int(int64(i))}, L.Typ)
		}
	}
	if fn != nil && strings.HasPrefix(pkgPathOf(fn), nebulaMod) && !matchAny(fnObj(fn), g.Stop) {
		st.unfollowed[res.key] = fnName(fn)
		if r := g.reaches(fn); r != "" {
			st.notes = append(st.notes, fmt.Sprintf("%s is not followed but can reach %s", fnName(fn), r))
		}
	}
	if tup, ok := x.Type().(*types.Tuple); ok {
		var rs []*g1Val
		for i := 0; i < tup.Len(); i++ {
			rs = append(rs, g1Extract(res, i, tup.At(i).Type()))
		}
		k(rs, st, false)
		return
	}
	one(res)
}

func g1IsYield(fn *ssa.Function) bool {
	r := fn.Signature.Results()
	if r.Len() != 1 {
		return false
	}
	b, ok := r.At(0).Type().Underlying().(*types.Basic)
	return ok && b.Kind() == types.Bool
}

func (g *g1Sym) iterate(fr *g1Frame, st *g1State, x *ssa.Call, seq, yield *g1Val, n int, k g1Cont) {
	more := g1CallT(nil, "iter-more", []*g1Val{seq, g1Int(int64(n))}, nil)
	stop := st.clone()
	stop.assume(more, false, x)
	k(nil, stop, false)
	if n >= g.MaxVisits-1 {
		g.Cut++
		return
	}
	st.assume(more, true, x)
	fn := yield.Fn
	nf := &g1Frame{fn: fn, vals: map[ssa.Value]*g1Val{}, visits: map[*ssa.BasicBlock]int{}, stack: append(append([]*ssa.Function(nil), fr.stack...), fr.fn)}
	for i, p := range fn.Params {
		nf.vals[p] = g1CallT(nil, "yield", []*g1Val{seq, g1Int(int64(n)), g1Int(int64(i))}, p.Type())
	}
	for i, f := range fn.FreeVars {
		if i < len(yield.Args) {
			nf.vals[f] = yield.Args[i]
		}
	}
	g.exec(nf, fn.Blocks[0], 0, nil, st, func(res []*g1Val, st2 *g1State, panicked bool) {
		if panicked {
			k(nil, st2, true)
			return
		}
		if len(res) == 1 {
			if b, ok := res[0].boolConst(); ok {
				if b {
					g.iterate(fr, st2, x, seq, yield, n+1, k)
				} else {
					k(nil, st2, false)
				}
				return
			}
		}
		st2.notes = append(st2.notes, "yield result not determined")
		k(nil, st2, false)
	})
}

// ---------------------------------------------------------------------------------------
// term matchers (objects, never names of locals)

type g1M func(*g1Val) bool

func g1MAny(*g1Val) bool { return true }

func g1MRoot(name string) g1M {
	return func(v *g1Val) bool { v = g1Strip(v); return v != nil && v.K == g1KRoot && v.Name == name }
}

func g1MGlobal(o types.Object) g1M {
	return func(v *g1Val) bool { v = g1Strip(v); return v != nil && v.K == g1KRoot && v.Obj != nil && v.Obj == o }
}

// g1MField: selection of field f (through pointers and embedded structs) on a base matching base.
func g1MField(f *types.Var, base g1M) g1M {
	return func(v *g1Val) bool {
		v = g1Strip(v)
		for v != nil && v.K == g1KField && v.Obj != types.Object(f) && v.Obj.(*types.Var).Embedded() {
			v = v.Args[0]
		}
		return v != nil && f != nil && v.K == g1KField && v.Obj == types.Object(f) && base(v.Args[0])
	}
}

// g1MEmb looks through selections of embedded fields (bart.Lite embeds liteTable).
func g1MEmb(m g1M) g1M {
	return func(v *g1Val) bool {
		v = g1Strip(v)
		for v != nil && v.K == g1KField && v.Obj.(*types.Var).Embedded() {
			if m(v) {
				return true
			}
			v = g1Strip(v.Args[0])
		}
		return v != nil && m(v)
	}
}

func g1MIndex(base, idx g1M) g1M {
	return func(v *g1Val) bool {
		v = g1Strip(v)
		return v != nil && v.K == g1KIndex && base(v.Args[0]) && idx(v.Args[1])
	}
}

func g1MConst(c constant.Value) g1M {
	return func(v *g1Val) bool {
		return v != nil && c != nil && v.K == g1KConst && v.C.Kind() == c.Kind() && constant.Compare(v.C, token.EQL, c)
	}
}
func g1MInt(k int64) g1M   { return g1MConst(constant.MakeInt64(k)) }
func g1MStr(s string) g1M  { return g1MConst(constant.MakeString(s)) }
func g1MBool(b bool) g1M   { return g1MConst(constant.MakeBool(b)) }
func g1MNil(v *g1Val) bool { return v != nil && v.K == g1KNil }
func g1MIs(x *g1Val) g1M {
	return func(v *g1Val) bool { return v != nil && x != nil && g1Strip(v).key == g1Strip(x).key }
}

// g1MCall: an uninterpreted call to one of refs whose leading arguments (receiver first) match.
func g1MCall(refs []Ref, args ...g1M) g1M {
	return func(v *g1Val) bool {
		if v == nil || v.K != g1KCall {
			return false
		}
		o, _ := v.Obj.(*types.Func)
		if !matchAny(o, refs) || len(v.Args) < len(args) {
			return false
		}
		for i, m := range args {
			if m != nil && !m(v.Args[i]) {
				return false
			}
		}
		return true
	}
}

func g1MBuiltin(name string, args ...g1M) g1M {
	return func(v *g1Val) bool {
		if v == nil || v.K != g1KCall || v.Obj != nil || v.Name != name || len(v.Args) < len(args) {
			return false
		}
		for i, m := range args {
			if m != nil && !m(v.Args[i]) {
				return false
			}
		}
		return true
	}
}

func g1MExtract(t g1M, i int) g1M {
	return func(v *g1Val) bool { return v != nil && v.K == g1KExtract && v.Idx == i && t(v.Args[0]) }
}

func g1MBinOp(op token.Token, a, b g1M, commutes bool) g1M {
	return func(v *g1Val) bool {
		if v == nil || v.K != g1KBin || v.Op != op {
			return false
		}
		return (a(v.Args[0]) && b(v.Args[1])) || (commutes && a(v.Args[1]) && b(v.Args[0]))
	}
}
func g1MEq(a, b g1M) g1M  { return g1MBinOp(token.EQL, a, b, true) }
func g1MLss(a, b g1M) g1M { return g1MBinOp(token.LSS, a, b, false) }
func g1MHas(m, k g1M) g1M {
	return func(v *g1Val) bool { return v != nil && v.K == g1KHas && m(v.Args[0]) && k(v.Args[1]) }
}
func g1MOr(ms ...g1M) g1M {
	return func(v *g1Val) bool {
		for _, m := range ms {
			if m(v) {
				return true
			}
		}
		return false
	}
}

// ---- path queries

// Lit returns the outcome of the first decision whose atom matches, and its index (-1: none).
func (p *g1Path) Lit(m g1M) (bool, int) {
	for i, l := range p.Lits {
		if m(l.Atom) {
			return l.Val, i
		}
	}
	return false, -1
}

func (p *g1Path) LitIs(m g1M, want bool) bool {
	for _, l := range p.Lits {
		if l.Val == want && m(l.Atom) {
			return true
		}
	}
	return false
}

// Calls lists the uninterpreted calls made on the path to any of refs.
func (p *g1Path) Calls(refs ...Ref) []g1Event {
	var out []g1Event
	for _, e := range p.Evs {
		if e.Kind == "call" && matchAny(e.Callee, refs) {
			out = append(out, e)
		}
	}
	return out
}

// Stores lists the stores (to memory that outlives the path) whose lvalue matches.
func (p *g1Path) Stores(m g1M) []g1Event {
	var out []g1Event
	for _, e := range p.Evs {
		if e.Kind == "store" && m(e.LV) {
			out = append(out, e)
		}
	}
	return out
}

// Content of an lvalue at the end of the path (for objects built on the path).
func (p *g1Path) Content(L *g1Val) *g1Val {
	st := &g1State{mem: p.Mem}
	return st.read(g1Strip(L))
}

func (p *g1Path) ResNil(i int) bool { return i < len(p.Res) && p.Res[i].K == g1KNil }

// ResNonNilErr: the result is a package-level error variable or a freshly made error.
func (p *g1Path) ResNonNilErr(i int) bool {
	if i >= len(p.Res) {
		return false
	}
	v := p.Res[i]
	switch v.K {
	case g1KRoot:
		return v.Obj != nil
	case g1KRef, g1KObj:
		return true
	case g1KCall:
		if f, ok := v.Obj.(*types.Func); ok && f.Pkg() != nil {
			switch f.Pkg().Path() + "." + f.Name() {
			case "fmt.Errorf", "errors.New":
				return true
			}
		}
	}
	return false
}

// ResNonNil: the result is known to be non-nil on this path (see ResNonNilErr, or tested != nil).
func (p *g1Path) ResNonNil(i int) bool {
	if p.ResNonNilErr(i) {
		return true
	}
	return i < len(p.Res) && p.LitIs(g1MEq(g1MIs(p.Res[i]), g1MNil), false)
}

// LastTrue returns the last decision with outcome true whose atom matches (nil: none).
func (p *g1Path) LastTrue(m g1M) *g1Val {
	for i := len(p.Lits) - 1; i >= 0; i-- {
		if p.Lits[i].Val && m(p.Lits[i].Atom) {
			return p.Lits[i].Atom
		}
	}
	return nil
}

func (p *g1Path) ResBool(i int) (bool, bool) {
	if i >= len(p.Res) {
		return false, false
	}
	return p.Res[i].boolConst()
}

// g1Trace renders the decisions of a path for a violation report.
func (c *Ctx) g1Trace(p *g1Path) []string {
	var out []string
	for _, l := range p.Lits {
		pos := "?"
		if l.At != nil {
			pos = c.instrPos(l.At)
			if i := strings.LastIndexByte(pos, ':'); i >= 0 {
				pos = "L" + pos[i+1:]
			}
		}
		out = append(out, fmt.Sprintf("%s %s=%v", pos, l.Atom, l.Val))
	}
	if len(out) > 24 {
		out = append(out[:12], append([]string{"…"}, out[len(out)-11:]...)...)
	}
	return out
}

func (c *Ctx) g1End(p *g1Path, fn *ssa.Function) string {
	if p.End != nil {
		return c.instrPos(p.End)
	}
	return c.P.Pos(fn.Pos())
}

// g1Explore runs the explorer and reports engine-level failures as undecided.
func (c *Ctx) g1Explore(rule string, g *g1Sym, fn *ssa.Function, roles ...string) []*g1Path {
	g.c = c
	paths := g.Explore(fn, roles...)
	if g.Err != "" {
		c.Unknown(rule, fnName(fn)+":paths", "path exploration abandoned: "+g.Err)
		return nil
	}
	if len(paths) == 0 {
		c.Unknown(rule, fnName(fn)+":paths", "no complete path found")
		return nil
	}
	seen := map[string]bool{}
	for _, p := range paths {
		for _, n := range p.Notes {
			if !seen[n] {
				seen[n] = true
				c.Unknown(rule, fnName(fn)+":inexact", n)
			}
		}
	}
	c.Note("%s: %d paths explored (%d cut at the loop bound %d)", fnName(fn), len(paths), g.Cut, g.MaxVisits)
	return paths
}

// g1Roles names the parameters of fn (receiver first) by their types, so that neither parameter
// names nor their order matter. A role that matches no or several parameters is undecided.
func (c *Ctx) g1Roles(rule string, fn *ssa.Function, want map[string]func(types.Type) bool) []string {
	roles := make([]string, len(fn.Params))
	count := map[string]int{}
	for i, p := range fn.Params {
		for role, is := range want {
			if is(p.Type()) {
				roles[i] = role
				count[role]++
			}
		}
	}
	for role := range want {
		if count[role] != 1 {
			c.Unknown(rule, fnName(fn)+":signature", fmt.Sprintf("parameter for role %s not identified by type (%d candidates): signature changed", role, count[role]))
			return nil
		}
	}
	return roles
}

// g1TNamed: the type is (a pointer to, when ptr) the named type pkg.name.
func g1TNamed(pkg, name string, ptr bool) func(types.Type) bool {
	return func(t types.Type) bool {
		_, isPtr := types.Unalias(t).(*types.Pointer)
		if isPtr != ptr {
			return false
		}
		n := recvNamed(t)
		return n != nil && n.Obj().Name() == name && n.Obj().Pkg() != nil && n.Obj().Pkg().Path() == PkgPath(pkg)
	}
}

func g1TBool(t types.Type) bool {
	b, ok := t.Underlying().(*types.Basic)
	return ok && b.Kind() == types.Bool
}

// g1EnumConsts lists the named constants of a given named type (enum-like), value -> name.
func (c *Ctx) g1EnumConsts(pkg, typ string) map[int64]string {
	out := map[int64]string{}
	tp := c.P.TypesPkg(pkg)
	n := c.NamedType(pkg, typ)
	if tp == nil || n == nil {
		return out
	}
	for _, name := range tp.Scope().Names() {
		if k, ok := tp.Scope().Lookup(name).(*types.Const); ok && types.Identical(k.Type(), n) {
			if v, ok := constantInt64(k.Val()); ok {
				out[v] = name
			}
		}
	}
	return out
}

// g1Func resolves r like Ctx.Func but never to the synthetic pointer-receiver wrapper of a method
// declared on a value receiver (the wrapper only forwards).
func (c *Ctx) g1Func(r Ref) *ssa.Function {
	fn := c.Func(r)
	if fn == nil || fn.Synthetic == "" || r.Recv == "" {
		return fn
	}
	sp := c.P.SSAPkgs[PkgPath(r.Pkg)]
	tn, _ := sp.Pkg.Scope().Lookup(r.Recv).(*types.TypeName)
	if tn == nil {
		return fn
	}
	if sel := c.P.SSA.MethodSets.MethodSet(tn.Type()).Lookup(sp.Pkg, r.Name); sel != nil {
		if f := c.P.SSA.MethodValue(sel); f != nil && f.Synthetic == "" {
			return f
		}
	}
	return fn
}

// UnfollowedDecider names a module function whose result a decision of the path depends on but
// which the explorer did not look into (it has loops, is large, or lives in another package). With
// rel, only calls one of whose arguments mentions a term matching rel count (a helper that never
// sees the packet cannot hide a test on the packet).
func (p *g1Path) UnfollowedDecider(rel g1M) string {
	if len(p.Unfollowed) == 0 {
		return ""
	}
	var walk func(v *g1Val) string
	walk = func(v *g1Val) string {
		if v == nil {
			return ""
		}
		if n, ok := p.Unfollowed[v.key]; ok && (rel == nil || g1MMentions(rel)(v)) {
			return n
		}
		if v.K == g1KCall {
			return "" // an unfollowed result that is merely an argument of another call decides nothing
		}
		for _, a := range v.Args {
			if n := walk(a); n != "" {
				return n
			}
		}
		return ""
	}
	for _, l := range p.Lits {
		if n := walk(l.Atom); n != "" {
			return n
		}
	}
	return ""
}

// g1MMentions: some sub-term matches m.
func g1MMentions(m g1M) g1M {
	var has func(v *g1Val) bool
	has = func(v *g1Val) bool {
		if v == nil {
			return false
		}
		if m(v) {
			return true
		}
		for _, a := range v.Args {
			if has(a) {
				return true
			}
		}
		return false
	}
	return has
}

// g1Verdict reports one path obligation: a counter-example path is a violation, unless the path
// was decided through a helper the explorer could not follow (then the shape is unrecognised).
func (c *Ctx) g1Verdict(rule, cons string, fn *ssa.Function, bad *g1Path, why string, n int, ok string, rel ...g1M) {
	switch {
	case bad != nil:
		c.g1BadPath(rule, cons, fn, bad, why, rel...)
	case n == 0:
		c.Unknown(rule, cons, "no instance found on any explored path: the construct is gone or has an unrecognised shape")
	default:
		c.OK(rule, cons, fmt.Sprintf("%s (%d path instances)", ok, n))
	}
}

func (c *Ctx) g1BadPath(rule, cons string, fn *ssa.Function, bad *g1Path, why string, rel ...g1M) {
	var r g1M
	if len(rel) > 0 {
		r = rel[0]
	}
	if h := bad.UnfollowedDecider(r); h != "" {
		c.Unknown(rule, cons, "the counter-example path is decided through "+h+", which is not followed (loop / size / other package): "+why)
		return
	}
	c.Bad(rule, cons, c.g1End(bad, fn), why, c.g1Trace(bad)...)
}
