package main

import (
	"fmt"
	"go/token"
	"go/types"
	"sort"
	"strings"

	"golang.org/x/tools/go/ssa"
)

// ---------------------------------------------------------------------------------------
// g7 helpers: value origins across local cells and closure cells, static callers, forward uses.

// g7ResolveCell maps a closure free variable to the cell (normally an Alloc) it was bound to in
// the enclosing function; other values are returned unchanged.
func g7ResolveCell(root ssa.Value) ssa.Value {
	for depth := 0; depth < 8; depth++ {
		fv, ok := root.(*ssa.FreeVar)
		if !ok {
			return root
		}
		fn := fv.Parent()
		par := fn.Parent()
		if par == nil {
			return root
		}
		idx := -1
		for i, v := range fn.FreeVars {
			if v == fv {
				idx = i
			}
		}
		var bind ssa.Value
		eachInstr(par, func(in ssa.Instruction) {
			if mc, ok := in.(*ssa.MakeClosure); ok && mc.Fn == ssa.Value(fn) && idx >= 0 && idx < len(mc.Bindings) {
				bind = mc.Bindings[idx]
			}
		})
		if bind == nil {
			return root
		}
		root = bind
	}
	return root
}

// g7StoresInto lists the values stored into the cell root (an Alloc or FreeVar) at a field path
// compatible with want, in the owning function and in every closure that captured the cell.
func g7StoresInto(root ssa.Value, want []int) []ssa.Value {
	var out []ssa.Value
	seen := map[ssa.Value]bool{}
	var scan func(v ssa.Value, p []int)
	scan = func(v ssa.Value, p []int) {
		if seen[v] {
			return
		}
		seen[v] = true
		refs := v.Referrers()
		if refs == nil {
			return
		}
		for _, r := range *refs {
			switch x := r.(type) {
			case *ssa.Store:
				if x.Addr == v && pathCompatible(p, want) {
					out = append(out, x.Val)
				}
			case *ssa.FieldAddr:
				if x.X == v {
					scan(x, append(append([]int{}, p...), x.Field))
				}
			case *ssa.IndexAddr:
				if x.X == v {
					scan(x, append(append([]int{}, p...), -1))
				}
			case *ssa.MakeClosure:
				if len(p) != 0 {
					continue
				}
				f, _ := x.Fn.(*ssa.Function)
				for i, b := range x.Bindings {
					if b == v && f != nil && i < len(f.FreeVars) {
						scan(f.FreeVars[i], nil)
					}
				}
			}
		}
	}
	scan(root, nil)
	return out
}

// g7AddrEscapes: the address of the cell (or of a part of it) is handed to a call, so callees may
// write it; stores seen locally are then not the only sources.
func g7AddrEscapes(root ssa.Value) bool {
	esc := false
	seen := map[ssa.Value]bool{}
	var scan func(v ssa.Value)
	scan = func(v ssa.Value) {
		if seen[v] || esc {
			return
		}
		seen[v] = true
		refs := v.Referrers()
		if refs == nil {
			return
		}
		for _, r := range *refs {
			switch x := r.(type) {
			case *ssa.FieldAddr:
				if x.X == v {
					scan(x)
				}
			case *ssa.IndexAddr:
				if x.X == v {
					scan(x)
				}
			case *ssa.Store:
				if x.Val == v {
					esc = true
				}
			case *ssa.MakeClosure:
				f, _ := x.Fn.(*ssa.Function)
				for i, b := range x.Bindings {
					if b == v && f != nil && i < len(f.FreeVars) {
						scan(f.FreeVars[i])
					}
				}
			case ssa.CallInstruction:
				if o := calleeObj(x); o != nil && o.Pkg() != nil && (o.Pkg().Path() == "sync" || o.Pkg().Path() == "sync/atomic") {
					continue
				}
				esc = true
			}
		}
	}
	scan(root)
	return esc
}

func g7Captured(al *ssa.Alloc) bool {
	if refs := al.Referrers(); refs != nil {
		for _, r := range *refs {
			if _, ok := r.(*ssa.MakeClosure); ok {
				return true
			}
		}
	}
	return false
}

// g7ParamBinds: parameter of an unexported helper all of whose call sites are known (published by
// fix7Delegation.bind for the duration of one check) -> the argument values at those sites.
var g7ParamBinds = map[*ssa.Parameter][]ssa.Value{}

// g7Origins resolves v to the set of values it may carry: through phis, conversions, re-slicing,
// loads of local cells (the values stored into them, with exact forwarding of the last store in the
// same block) and loads of closure cells (the values stored in the enclosing function and in sibling
// closures). Everything else (parameters, call results, tuple extracts, loads from the heap,
// constants) is an origin.
func g7Origins(v ssa.Value) []ssa.Value {
	seen := map[ssa.Value]bool{}
	var out []ssa.Value
	var walk func(v ssa.Value)
	walk = func(v ssa.Value) {
		if v == nil || seen[v] {
			return
		}
		seen[v] = true
		switch x := v.(type) {
		case *ssa.Parameter:
			// a delegate of a tabled function (fix7): the parameter carries exactly the arguments of
			// its (enumerated, all in-module) call sites
			if vals := g7ParamBinds[x]; len(vals) > 0 {
				for _, a := range vals {
					walk(a)
				}
				return
			}
		case *ssa.Phi:
			for _, e := range x.Edges {
				walk(e)
			}
			return
		case *ssa.ChangeType:
			walk(x.X)
			return
		case *ssa.Convert:
			walk(x.X)
			return
		case *ssa.ChangeInterface:
			walk(x.X)
			return
		case *ssa.MakeInterface:
			walk(x.X)
			return
		case *ssa.Slice:
			walk(x.X)
			return
		case *ssa.UnOp:
			if x.Op != token.MUL {
				break
			}
			// exact: last store to the same whole cell earlier in the block
			if al, ok := x.X.(*ssa.Alloc); ok {
				instrs := x.Block().Instrs
				pos := -1
				for i, in := range instrs {
					if in == ssa.Instruction(x) {
						pos = i
					}
				}
				for i := pos - 1; i >= 0; i-- {
					if st, ok := instrs[i].(*ssa.Store); ok {
						if st.Addr == ssa.Value(al) {
							walk(st.Val)
							return
						}
						if r, _ := addrRoot(st.Addr); r == ssa.Value(al) {
							break // partial store: fall back to the flow-insensitive set
						}
					}
					if _, isCall := instrs[i].(ssa.CallInstruction); isCall && (g7Captured(al) || g7AddrEscapes(al)) {
						break
					}
				}
			}
			root, path := addrRoot(x.X)
			cell := g7ResolveCell(root)
			if al, ok := cell.(*ssa.Alloc); ok {
				sts := g7StoresInto(al, path)
				if len(sts) == 0 || g7AddrEscapes(al) {
					out = append(out, v)
				}
				for _, s := range sts {
					walk(s)
				}
				return
			}
		}
		out = append(out, v)
	}
	walk(v)
	return out
}

// g7NonNil drops nil constants (a nil slice / pointer carries no data).
func g7NonNil(vs []ssa.Value) []ssa.Value {
	var out []ssa.Value
	for _, v := range vs {
		if isNilConst(v) {
			continue
		}
		out = append(out, v)
	}
	return out
}

func g7SameSet(a, b []ssa.Value) bool {
	if len(a) == 0 || len(b) == 0 {
		return false
	}
	in := func(x ssa.Value, s []ssa.Value) bool {
		for _, y := range s {
			if x == y {
				return true
			}
		}
		return false
	}
	for _, x := range a {
		if !in(x, b) {
			return false
		}
	}
	for _, y := range b {
		if !in(y, a) {
			return false
		}
	}
	return true
}

func g7Contains(s []ssa.Value, x ssa.Value) bool {
	for _, y := range s {
		if x == y {
			return true
		}
	}
	return false
}

// g7FieldLoadBase: v is a load of field f (x.f through a pointer, or a Field of a struct value);
// returns the base x.
func g7FieldLoadBase(v ssa.Value, f *types.Var) (ssa.Value, bool) {
	if f == nil {
		return nil, false
	}
	switch x := v.(type) {
	case *ssa.UnOp:
		if x.Op == token.MUL {
			if fa, ok := x.X.(*ssa.FieldAddr); ok && fieldOfAddr(fa) == f {
				return fa.X, true
			}
		}
	case *ssa.Field:
		if fieldOfVal(x) == f {
			return x.X, true
		}
	case *ssa.FieldAddr:
		if fieldOfAddr(x) == f {
			return x.X, true
		}
	}
	return nil, false
}

// g7ParamIndex returns the index of p among its function's parameters (receiver first), or -1.
func g7ParamIndex(p *ssa.Parameter) int {
	for i, q := range p.Parent().Params {
		if q == p {
			return i
		}
	}
	return -1
}

// g7Callers lists the call sites of target among funcs: static calls, plus interface invocations of
// a same-named method on an interface the receiver type implements. escapes reports that target is
// also used as a function value (callers then cannot be enumerated).
func g7Callers(funcs []*ssa.Function, target *ssa.Function) (sites []ssa.CallInstruction, escapes bool) {
	var recv types.Type
	if target.Signature.Recv() != nil {
		recv = target.Signature.Recv().Type()
	}
	for _, fn := range funcs {
		eachInstr(fn, func(in ssa.Instruction) {
			if ci, ok := in.(ssa.CallInstruction); ok {
				cc := ci.Common()
				if cc.IsInvoke() {
					if recv != nil && cc.Method.Name() == target.Name() {
						if it, ok := cc.Value.Type().Underlying().(*types.Interface); ok && types.Implements(recv, it) {
							sites = append(sites, ci)
						}
					}
				} else if cc.StaticCallee() == target {
					sites = append(sites, ci)
					for _, a := range cc.Args {
						if a == ssa.Value(target) {
							escapes = true
						}
					}
					return
				}
			}
			var ops []*ssa.Value
			for _, op := range in.Operands(ops) {
				if op == nil || *op == nil {
					continue
				}
				if f, ok := (*op).(*ssa.Function); ok {
					if f == target {
						if ci, isCall := in.(ssa.CallInstruction); isCall && ci.Common().Value == ssa.Value(f) {
							continue
						}
						escapes = true
					} else if f.Synthetic != "" && target.Object() != nil {
						if o := boundTarget(f); o != nil && o == target.Object() {
							escapes = true
						}
					}
				}
			}
		})
	}
	return
}

// g7Use is one terminal use of a tracked value (after following field/element selection, loads,
// phis and conversions forward).
type g7Use struct {
	In   ssa.Instruction
	Kind string // call-arg | compare | box | store | return | other
	Arg  int    // argument index (receiver first) for call-arg
}

// g7ForwardUses follows v forward through selections (x.f, x[i], *x, slicing, phis, conversions) and
// returns the instructions that finally consume it.
func g7ForwardUses(v ssa.Value) []g7Use {
	var out []g7Use
	seen := map[ssa.Value]bool{}
	var walk func(v ssa.Value)
	walk = func(v ssa.Value) {
		if seen[v] {
			return
		}
		seen[v] = true
		refs := v.Referrers()
		if refs == nil {
			return
		}
		for _, r := range *refs {
			switch x := r.(type) {
			case *ssa.DebugRef:
			case *ssa.FieldAddr:
				walk(x)
			case *ssa.Field:
				walk(x)
			case *ssa.IndexAddr:
				if x.X == v {
					walk(x)
				}
			case *ssa.Index:
				if x.X == v {
					walk(x)
				}
			case *ssa.Slice:
				if x.X == v {
					walk(x)
				}
			case *ssa.Phi:
				walk(x)
			case *ssa.ChangeType:
				walk(x)
			case *ssa.Convert:
				walk(x)
			case *ssa.UnOp:
				if x.Op == token.MUL {
					walk(x)
				} else {
					out = append(out, g7Use{In: x, Kind: "other"})
				}
			case *ssa.BinOp:
				switch x.Op {
				case token.EQL, token.NEQ:
					out = append(out, g7Use{In: x, Kind: "compare"})
				default:
					out = append(out, g7Use{In: x, Kind: "other"})
				}
			case *ssa.MakeInterface:
				out = append(out, g7Use{In: x, Kind: "box"})
			case *ssa.Store:
				out = append(out, g7Use{In: x, Kind: "store"})
			case *ssa.Return:
				out = append(out, g7Use{In: x, Kind: "return"})
			case ssa.CallInstruction:
				for i, a := range callArgs(x) {
					if a == v {
						out = append(out, g7Use{In: x, Kind: "call-arg", Arg: i})
					}
				}
			default:
				out = append(out, g7Use{In: r, Kind: "other"})
			}
		}
	}
	walk(v)
	return out
}

// g7IsLogCall: a call into log/slog (or the module's per-tunnel logger helper): diagnostics only.
func g7IsLogCall(ci ssa.CallInstruction) bool {
	o := calleeObj(ci)
	if o == nil || o.Pkg() == nil {
		return false
	}
	switch o.Pkg().Path() {
	case "log/slog", "log", "fmt":
		return true
	}
	return matchFunc(o, Ref{"", "HostInfo", "logger"})
}

// g7Returns lists the Return instructions of fn.
func g7Returns(fn *ssa.Function) []*ssa.Return {
	var out []*ssa.Return
	for _, b := range fn.Blocks {
		if len(b.Instrs) == 0 {
			continue
		}
		if r, ok := b.Instrs[len(b.Instrs)-1].(*ssa.Return); ok {
			out = append(out, r)
		}
	}
	return out
}

// ---------------------------------------------------------------------------------------
// Reachability with correlated stable predicates (K1 "product" construction): two Ifs testing the
// same equality between never-reassigned operands (fields of parameters / local structs that the
// function does not store to, parameters, constants) take the same outcome on one path.

// g7StableKey returns a canonical key for an If condition that is such a stable equality, and
// whether the condition being true means "equal".
func g7StableKey(fn *ssa.Function, cond ssa.Value, storedFields map[*types.Var]bool) (string, bool, bool) {
	cd := normCond(cond)
	if cd.Kind != CondCmp {
		return "", false, false
	}
	bo := cd.Base.(*ssa.BinOp)
	if bo.Op != token.EQL && bo.Op != token.NEQ {
		return "", false, false
	}
	var stable func(v ssa.Value, d int) bool
	stable = func(v ssa.Value, d int) bool {
		if d > 4 {
			return false
		}
		switch x := v.(type) {
		case *ssa.Const, *ssa.Parameter:
			return true
		case *ssa.Alloc:
			return true
		case *ssa.Convert:
			return stable(x.X, d+1)
		case *ssa.ChangeType:
			return stable(x.X, d+1)
		case *ssa.UnOp:
			if x.Op != token.MUL {
				return false
			}
			fa, ok := x.X.(*ssa.FieldAddr)
			if !ok || storedFields[fieldOfAddr(fa)] {
				return false
			}
			return stable(fa.X, d+1)
		case *ssa.Field:
			return stable(x.X, d+1)
		}
		return false
	}
	if !stable(bo.X, 0) || !stable(bo.Y, 0) {
		return "", false, false
	}
	a, b := exprString(bo.X), exprString(bo.Y)
	if b < a {
		a, b = b, a
	}
	eq := (bo.Op == token.EQL) != cd.Neg
	return a + "==" + b, eq, true
}

// g7FieldsStored lists the struct fields fn stores to directly.
func g7FieldsStored(fn *ssa.Function) map[*types.Var]bool {
	out := map[*types.Var]bool{}
	eachInstr(fn, func(in ssa.Instruction) {
		if st, ok := in.(*ssa.Store); ok {
			if fa, ok := st.Addr.(*ssa.FieldAddr); ok {
				out[fieldOfAddr(fa)] = true
			}
		}
	})
	return out
}

// g7ReachCorrelated: can `to` be reached from the entry without crossing a blocked edge, when
// stable equalities keep one truth value along a path? Returns a witness block path.
func (c *Ctx) g7ReachCorrelated(fn *ssa.Function, to *ssa.BasicBlock, blocked map[Edge]bool) (bool, []string) {
	stored := g7FieldsStored(fn)
	type state struct {
		b   *ssa.BasicBlock
		asg string
	}
	type node struct {
		st   state
		prev *node
	}
	start := &node{st: state{fn.Blocks[0], ""}}
	seen := map[state]bool{start.st: true}
	work := []*node{start}
	lookup := func(asg, key string) (bool, bool) {
		for _, kv := range strings.Split(asg, "\x00") {
			if strings.HasPrefix(kv, key+"=") {
				return kv[len(key)+1:] == "T", true
			}
		}
		return false, false
	}
	for len(work) > 0 && len(seen) < 20000 {
		n := work[0]
		work = work[1:]
		if n.st.b == to {
			var rev []string
			for x := n; x != nil; x = x.prev {
				rev = append(rev, fmt.Sprintf("b%d(%s)", x.st.b.Index, c.blockLine(x.st.b)))
			}
			for i, j := 0, len(rev)-1; i < j; i, j = i+1, j-1 {
				rev[i], rev[j] = rev[j], rev[i]
			}
			return true, rev
		}
		b := n.st.b
		key, eqWhenTrue, isStable := "", false, false
		if len(b.Instrs) > 0 {
			if ifi, ok := b.Instrs[len(b.Instrs)-1].(*ssa.If); ok {
				key, eqWhenTrue, isStable = g7StableKey(fn, ifi.Cond, stored)
			}
		}
		for i, s := range b.Succs {
			if blocked[Edge{b, i}] {
				continue
			}
			asg := n.st.asg
			if isStable {
				// successor 0 <=> condition true
				eq := eqWhenTrue == (i == 0)
				if known, ok := lookup(asg, key); ok {
					if known != eq {
						continue
					}
				} else {
					v := "F"
					if eq {
						v = "T"
					}
					parts := []string{}
					if asg != "" {
						parts = strings.Split(asg, "\x00")
					}
					parts = append(parts, key+"="+v)
					sort.Strings(parts)
					asg = strings.Join(parts, "\x00")
				}
			}
			ns := state{s, asg}
			if !seen[ns] {
				seen[ns] = true
				work = append(work, &node{st: ns, prev: n})
			}
		}
	}
	return false, nil
}

// g7ReturnsFieldBool: every return of fn yields the boolean field f (of a parameter / receiver), or
// on every return its negation. Used to accept a guard that was extracted into a one-line helper.
func g7ReturnsFieldBool(fn *ssa.Function, f *types.Var) (neg bool, ok bool) {
	if fn == nil || fn.Blocks == nil || fn.Signature.Results().Len() != 1 {
		return false, false
	}
	n := 0
	for _, r := range g7Returns(fn) {
		cd := normCond(r.Results[0])
		if cd.Kind != CondBool || !loadsField(cd.Base, f) {
			return false, false
		}
		if n > 0 && cd.Neg != neg {
			return false, false
		}
		neg = cd.Neg
		n++
	}
	return neg, n > 0
}

// g7FieldBoolGuard: the boolean field f must equal want; the test may be the field itself or a call
// to a helper that returns exactly the field (or its negation).
func g7FieldBoolGuard(name string, f *types.Var, want bool) Guard {
	return Guard{Name: name, Match: func(cd Cond, _ *ssa.If) (bool, bool) {
		if cd.Kind != CondBool || f == nil {
			return false, false
		}
		if loadsField(cd.Base, f) {
			return true, want != cd.Neg
		}
		call, _ := callOf(cd.Base)
		if call == nil {
			return false, false
		}
		neg, ok := g7ReturnsFieldBool(call.Common().StaticCallee(), f)
		if !ok {
			return false, false
		}
		return true, (neg == cd.Neg) == want
	}}
}

// g7RecFieldEq: the field f of a record accepted by rec must equal val. The test may be written
// inline (`r.f == val`, either operand order, `!=` with the branches swapped) or inside a boolean
// helper H(..., r, ...) all of whose `return true` paths pass that same test on the parameter that
// receives the record (one level of callee summary).
func (c *Ctx) g7RecFieldEq(name string, f *types.Var, rec func(ssa.Value) bool, val int64) Guard {
	isVal := func(v ssa.Value) bool { x, ok := constInt(v); return ok && x == val }
	fieldOfRec := func(pred func(ssa.Value) bool) func(ssa.Value) bool {
		return func(v ssa.Value) bool {
			base, ok := g7FieldLoadBase(stripValue(v), f)
			if !ok {
				return false
			}
			os := g7NonNil(g7Origins(base))
			for _, o := range os {
				if !pred(o) {
					return false
				}
			}
			return len(os) > 0
		}
	}
	inline := gCmp(name, fieldOfRec(rec), isVal, mustEqual)
	memo := map[*ssa.Function]int{}
	return Guard{Name: name, Match: func(cd Cond, ifi *ssa.If) (bool, bool) {
		if is, p := inline.Match(cd, ifi); is {
			return is, p
		}
		if cd.Kind != CondBool {
			return false, false
		}
		call, _ := callOf(cd.Base)
		if call == nil {
			return false, false
		}
		h := call.Common().StaticCallee()
		if h == nil || h.Blocks == nil || h.Signature.Results().Len() != 1 || !strings.HasPrefix(pkgPathOf(h), nebulaMod) {
			return false, false
		}
		for j, a := range callArgs(call) {
			os := g7NonNil(g7Origins(a))
			all := len(os) > 0
			for _, o := range os {
				if !rec(o) {
					all = false
				}
			}
			if !all || j >= len(h.Params) {
				continue
			}
			verdict, seen := memo[h]
			if !seen {
				verdict = -1
				p := h.Params[j]
				inner := gCmp(name, fieldOfRec(func(o ssa.Value) bool { return o == ssa.Value(p) }), isVal, mustEqual)
				if c.g7TrueImplies(h, inner) {
					verdict = 1
				}
				memo[h] = verdict
			}
			if verdict == 1 {
				return true, !cd.Neg
			}
		}
		return false, false
	}}
}

// g7TrueImplies: the boolean function h returns true only if guard g held: every `return true` path
// crosses a pass edge of g, or the returned value is g's own test (`return r.f == v`, or the last
// operand of an && chain).
func (c *Ctx) g7TrueImplies(h *ssa.Function, g Guard) bool {
	sinks := boolReturns(h, 0, true)
	if len(sinks) == 0 {
		return false
	}
	for _, s := range sinks {
		ret := s.Instr.(*ssa.Return)
		v := retResult(ret, 0)
		if phi, ok := v.(*ssa.Phi); ok && s.ViaPred != nil {
			for i, p := range phi.Block().Preds {
				if p == s.ViaPred && i < len(phi.Edges) {
					v = phi.Edges[i]
				}
			}
		}
		if is, passTrue := g.Match(normCond(v), nil); is && passTrue {
			continue
		}
		if ok, n, _ := c.mustPass(h, s, g); !ok || n == 0 {
			return false
		}
	}
	return true
}
