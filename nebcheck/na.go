package main

import "fmt"

func init() {
	na("C24", "superpacket segmentation: every clause is arithmetic on lengths, sequence numbers and one's-complement sums of runtime bytes; no structural clause is a necessary condition that is not itself numeric (DESIGN.md §5)")
	na("C25", "AVX2 checksum = RFC 1071: equality of two numeric functions, one of them in assembly that go/ssa does not see; no static analysis in reach relates them (DESIGN.md §5)")
	na("C26", "batched sends under kernel faults: index bookkeeping across scripted fault sequences (loop-carried arithmetic); needs exploration of fault histories, a different technique family (DESIGN.md §5)")
	na("C33", "timer wheel timing: bounds on slot arithmetic over arbitrary advance histories; numeric and history-quantified (DESIGN.md §5)")
	for i := 1; i <= 49; i++ {
		id := fmt.Sprintf("C%02d", i)
		if _, ok := notApplicable[id]; !ok {
			na(id, "not claimed yet: the static rules designed for it in DESIGN.md §4 are not implemented in nebcheck at this commit")
		}
	}
}
