package main

import (
	"fmt"
	"go/token"
	"go/types"
	"sort"

	"golang.org/x/tools/go/ssa"
	"golang.org/x/tools/go/ssa/ssautil"
)

// ---------------------------------------------------------------------------------------
// g13: loop-carried cursors. The rules of C26 (batched send) and C33 (timer wheel) are about
// variables that live across loop iterations (a cursor into a prepared array, a list link). In
// go/ssa such a variable is a phi in a loop header: its edges from outside the loop are its initial
// values, its edges from inside are the values it takes when the loop goes round. The helpers below
// split those edges and decide "this back edge / this instruction is only taken behind a test that
// entails G", per iteration (reachability from a block inside the loop, so that a test passed in an
// earlier iteration on an earlier value never discharges a later one).

type g13Back struct {
	Pred *ssa.BasicBlock // block inside the loop whose edge re-enters the header
	Val  ssa.Value       // value the phi takes over that edge
}

type g13Ind struct {
	Phi  *ssa.Phi
	L    *natLoop
	Init []ssa.Value
	Back []g13Back
}

// g13Induction splits the edges of header phi p of loop l.
func g13Induction(l *natLoop, p *ssa.Phi) *g13Ind {
	if l == nil || p == nil || p.Block() != l.Header {
		return nil
	}
	in := &g13Ind{Phi: p, L: l}
	for k, pr := range l.Header.Preds {
		if l.Body[pr] {
			in.Back = append(in.Back, g13Back{pr, p.Edges[k]})
		} else {
			in.Init = append(in.Init, p.Edges[k])
		}
	}
	sort.SliceStable(in.Back, func(i, j int) bool { return in.Back[i].Pred.Index < in.Back[j].Pred.Index })
	return in
}

// g13HeaderPhi: v is a phi of l's header.
func g13HeaderPhi(l *natLoop, v ssa.Value) *ssa.Phi {
	p, ok := v.(*ssa.Phi)
	if !ok || l == nil || p.Block() != l.Header {
		return nil
	}
	return p
}

func g13HeaderPhis(l *natLoop) []*ssa.Phi {
	var out []*ssa.Phi
	for _, in := range l.Header.Instrs {
		p, ok := in.(*ssa.Phi)
		if !ok {
			break
		}
		out = append(out, p)
	}
	return out
}

// g13Enclosing: the smallest natural loop that contains l's header and is not l itself.
func g13Enclosing(loops []*natLoop, l *natLoop) *natLoop {
	var best *natLoop
	for _, o := range loops {
		if o != l && o.Body[l.Header] && o.Header != l.Header && (best == nil || len(o.Body) < len(best.Body)) {
			best = o
		}
	}
	return best
}

// g13LoopInside: loop in lies wholly inside loop out.
func g13LoopInside(in, out *natLoop) bool {
	if in == nil || out == nil || in == out {
		return false
	}
	for b := range in.Body {
		if !out.Body[b] {
			return false
		}
	}
	return true
}

// g13EdgeBehind: starting at block start (the iteration's anchor: the loop header, or the block of
// the call whose result the guard tests), the CFG edge pred->succ can only be taken after crossing
// a pass edge of g. Returns ok, the number of tests matching g in fn, and a bypass path.
func (c *Ctx) g13EdgeBehind(fn *ssa.Function, start, pred, succ *ssa.BasicBlock, g Guard) (bool, int, []string) {
	edges, n := passEdges(fn, g)
	prev := reachable(start, edges)
	if _, r := prev[pred]; !r {
		return true, n, nil
	}
	for i, s := range pred.Succs {
		if s == succ && !edges[Edge{pred, i}] {
			return false, n, append(c.blockPath(prev, pred), fmt.Sprintf("b%d", succ.Index))
		}
	}
	return true, n, nil
}

// g13InstrBehind: same for reaching the block of an instruction.
func (c *Ctx) g13InstrBehind(fn *ssa.Function, start *ssa.BasicBlock, at ssa.Instruction, g Guard) (bool, int, []string) {
	edges, n := passEdges(fn, g)
	prev := reachable(start, edges)
	if _, r := prev[at.Block()]; r {
		return false, n, c.blockPath(prev, at.Block())
	}
	return true, n, nil
}

// g13CheckEdge / g13CheckInstr record the obligation.
func (c *Ctx) g13CheckEdge(rule, cons string, fn *ssa.Function, start, pred, succ *ssa.BasicBlock, g Guard, why string) bool {
	ok, n, path := c.g13EdgeBehind(fn, start, pred, succ, g)
	if ok {
		c.OK(rule, cons, fmt.Sprintf("only behind %q (%d test(s))", g.Name, n))
		return true
	}
	c.Bad(rule, cons, c.instrPos(pred.Instrs[len(pred.Instrs)-1]), fmt.Sprintf("reachable without the test %q having passed (%d matching tests in the function): %s", g.Name, n, why), path...)
	return false
}

func (c *Ctx) g13CheckInstr(rule, cons string, fn *ssa.Function, start *ssa.BasicBlock, at ssa.Instruction, g Guard, why string) bool {
	ok, n, path := c.g13InstrBehind(fn, start, at, g)
	if ok {
		c.OK(rule, cons, fmt.Sprintf("only behind %q (%d test(s))", g.Name, n))
		return true
	}
	c.Bad(rule, cons, c.instrPos(at), fmt.Sprintf("reachable without the test %q having passed (%d matching tests in the function): %s", g.Name, n, why), path...)
	return false
}

// g13LoopCovers: natural loop l visits idx = lo, lo+1, ..., hi-1 exactly once each, ascending: idx is
// a header phi (plus a constant, as `range` lowers it) whose first value is lo and which steps by 1
// on every back edge, and the loop's only exit is taken exactly when idx >= hi.
func g13LoopCovers(e *g11Env, l *natLoop, idx ssa.Value, lo, hi g11Lin) (bool, string) {
	return g13LoopCoversX(e, l, idx, lo, hi, nil)
}

// g13LoopCoversX: as g13LoopCovers, with the exits for which skip holds left out of account (an
// early return the caller checks separately).
func g13LoopCoversX(e *g11Env, l *natLoop, idx ssa.Value, lo, hi g11Lin, skip func(Edge) bool) (bool, string) {
	il := e.lin(idx)
	var phi *ssa.Phi
	for _, p := range g13HeaderPhis(l) {
		// idx = p + d, d a combination of the (loop-invariant) quantities the bounds are made of
		d := il.sub(e.lin(p))
		if !g13LinOnly(d, lo, hi) {
			continue
		}
		good := true
		for k, pr := range l.Header.Preds {
			ev := e.lin(p.Edges[k])
			if l.Body[pr] {
				good = good && ev.sub(e.lin(p)).equal(g11Const(1))
			} else {
				good = good && ev.add(d).equal(lo)
			}
		}
		if good {
			phi = p
		}
	}
	if phi == nil {
		return false, "the index is not an induction variable starting at " + lo.String() + " and stepping by 1"
	}
	var exits []Edge
	for _, x := range g11ExitEdges(l) {
		if skip == nil || !skip(x) {
			exits = append(exits, x)
		}
	}
	if len(exits) != 1 {
		return false, fmt.Sprintf("the loop has %d exits", len(exits))
	}
	ifi, ok := exits[0].From.Instrs[len(exits[0].From.Instrs)-1].(*ssa.If)
	if !ok {
		return false, "the loop exit is not a test"
	}
	t, f := e.outcomes(ifi.Cond)
	stay, leave := t, f
	if exits[0].Succ == 0 {
		stay, leave = f, t
	}
	lt, _ := g11Cmp(token.LSS, il, hi)
	ge, _ := g11Cmp(token.GEQ, il, hi)
	if g11ImpliesAny(stay, []g11Cons{lt}) && g11ImpliesAny(leave, []g11Cons{ge}) {
		return true, ""
	}
	return false, "the loop does not continue exactly while index < " + hi.String()
}

// ---------------------------------------------------------------------------------------
// element of a slice held in a struct field:  &(*(&base.f))[idx]

type g13Elem struct {
	F    *types.Var
	Base ssa.Value
	Idx  ssa.Value
}

// g13ElemAddr: addr = &base.f[idx] (f a slice- or array-typed field loaded in place).
func g13ElemAddr(addr ssa.Value) (g13Elem, bool) {
	ia, ok := addr.(*ssa.IndexAddr)
	if !ok {
		return g13Elem{}, false
	}
	switch x := ia.X.(type) {
	case *ssa.UnOp:
		if fa, ok := x.X.(*ssa.FieldAddr); ok && x.Op == token.MUL {
			return g13Elem{fieldOfAddr(fa), fa.X, ia.Index}, true
		}
	case *ssa.FieldAddr: // array field
		return g13Elem{fieldOfAddr(x), x.X, ia.Index}, true
	}
	return g13Elem{}, false
}

// g13ElemLoad: v = base.f[idx] (a load of such an element).
func g13ElemLoad(v ssa.Value) (g13Elem, bool) {
	u, ok := v.(*ssa.UnOp)
	if !ok || u.Op != token.MUL {
		return g13Elem{}, false
	}
	return g13ElemAddr(u.X)
}

// g13ParamElemLoad: v = p[idx] for slice parameter p.
func g13ParamElemLoad(v ssa.Value, p *ssa.Parameter) (ssa.Value, bool) {
	u, ok := v.(*ssa.UnOp)
	if !ok || u.Op != token.MUL {
		return nil, false
	}
	ia, ok := u.X.(*ssa.IndexAddr)
	if !ok || ia.X != ssa.Value(p) {
		return nil, false
	}
	return ia.Index, true
}

// g13FieldLoadOf: v = *(&base.f) and returns base.
func g13FieldLoadOf(v ssa.Value, f *types.Var) (ssa.Value, bool) {
	u, ok := v.(*ssa.UnOp)
	if !ok || u.Op != token.MUL {
		return nil, false
	}
	fa, ok := u.X.(*ssa.FieldAddr)
	if !ok || f == nil || fieldOfAddr(fa) != f {
		return nil, false
	}
	return fa.X, true
}

// ---------------------------------------------------------------------------------------
// versions of one accumulator variable

// g13Web collects, starting from the given values, the phis and additions that make up one
// accumulator ("written += x"): phis are expanded, an addition continues through the operand that is
// itself a phi or an addition of the web; the other operand is an increment. Leaves that are neither
// (constants, foreign values) are reported as seeds.
type g13Web struct {
	Members map[ssa.Value]bool
	Adds    []*ssa.BinOp
	Incr    map[*ssa.BinOp]ssa.Value
	Seeds   []ssa.Value
	Odd     []ssa.Value // additions whose accumulator operand cannot be told
}

func g13AccumWeb(starts ...ssa.Value) *g13Web {
	w := &g13Web{Members: map[ssa.Value]bool{}, Incr: map[*ssa.BinOp]ssa.Value{}}
	isAcc := func(v ssa.Value) bool {
		switch x := v.(type) {
		case *ssa.Phi:
			return true
		case *ssa.BinOp:
			return x.Op == token.ADD
		}
		return false
	}
	var walk func(v ssa.Value)
	walk = func(v ssa.Value) {
		if w.Members[v] {
			return
		}
		switch x := v.(type) {
		case *ssa.Phi:
			w.Members[v] = true
			for _, e := range x.Edges {
				walk(e)
			}
		case *ssa.BinOp:
			if x.Op != token.ADD {
				w.Seeds = append(w.Seeds, v)
				return
			}
			w.Members[v] = true
			ax, ay := isAcc(x.X), isAcc(x.Y)
			switch {
			case ax && !ay:
				w.Adds, w.Incr[x] = append(w.Adds, x), x.Y
				walk(x.X)
			case ay && !ax:
				w.Adds, w.Incr[x] = append(w.Adds, x), x.X
				walk(x.Y)
			default:
				w.Odd = append(w.Odd, v)
			}
		default:
			w.Seeds = append(w.Seeds, v)
		}
	}
	for _, s := range starts {
		walk(s)
	}
	sort.SliceStable(w.Adds, func(i, j int) bool { return w.Adds[i].Pos() < w.Adds[j].Pos() })
	return w
}

// g13Current: the version of the accumulator that is current at instruction at: the member
// definition that dominates `at` and is dominated by every other member definition dominating it
// (SSA renaming makes the nearest dominating definition of a variable its reaching definition).
func g13Current(w *g13Web, at ssa.Instruction) ssa.Value {
	var cands []ssa.Instruction
	for m := range w.Members {
		in, ok := m.(ssa.Instruction)
		if ok && in != at && g13Dominates(in, at) {
			cands = append(cands, in)
		}
	}
	var best ssa.Instruction
	for _, a := range cands {
		if best == nil || g13Dominates(best, a) {
			best = a
		}
	}
	if best == nil {
		return nil
	}
	return best.(ssa.Value)
}

func g13Dominates(a, b ssa.Instruction) bool {
	if a.Block() == b.Block() {
		// phis come first in a block and are all "simultaneous": a phi dominates every non-phi
		ia, ib := -1, -1
		for i, x := range a.Block().Instrs {
			if x == a {
				ia = i
			}
			if x == b {
				ib = i
			}
		}
		return ia < ib
	}
	return a.Block().Dominates(b.Block())
}

// g13LinOnly: every atom of d is an atom of one of the allowed forms (so d is a combination of
// known quantities and a mismatch is a decided mismatch, not an unrecognised expression).
func g13LinOnly(d g11Lin, allowed ...g11Lin) bool {
	ok := map[string]bool{}
	for _, a := range allowed {
		for k := range a.T {
			ok[k] = true
		}
	}
	for k := range d.T {
		if !ok[k] {
			return false
		}
	}
	return true
}

// g13ModuleCallsExcept: static calls in fn to functions of package pkgPath other than the listed
// ones (an un-modelled helper may perform a write the rule is looking for: a missing write is then
// "unrecognised shape", not a violation).
func g13ModuleCallsExcept(fn *ssa.Function, pkgPath string, known ...Ref) []ssa.CallInstruction {
	var out []ssa.CallInstruction
	eachInstr(fn, func(in ssa.Instruction) {
		ci, ok := in.(ssa.CallInstruction)
		if !ok {
			return
		}
		callee := ci.Common().StaticCallee()
		if callee == nil || pkgPathOf(callee) != pkgPath || matchAny(fnObj(callee), known) {
			return
		}
		out = append(out, ci)
	})
	return out
}

// g13DependsOn: target occurs among the operands v is computed from (all operands, including slice
// and map indices, which the provenance slice deliberately ignores); phis and loads are followed,
// calls are followed through their arguments.
func g13DependsOn(v, target ssa.Value) bool {
	seen := map[ssa.Value]bool{}
	var walk func(v ssa.Value) bool
	walk = func(v ssa.Value) bool {
		if v == nil || seen[v] {
			return false
		}
		if v == target {
			return true
		}
		seen[v] = true
		in, ok := v.(ssa.Instruction)
		if !ok {
			return false
		}
		var ops []*ssa.Value
		for _, op := range in.Operands(ops) {
			if op != nil && walk(*op) {
				return true
			}
		}
		return false
	}
	return walk(v)
}

// g13SliceBounds resolves nested slice expressions x[a:][b:c] to the root value and the effective
// [lo, hi) offsets into it (hi nil when open-ended).
func g13SliceBounds(e *g11Env, v ssa.Value) (root ssa.Value, lo g11Lin, hi *g11Lin) {
	lo = g11Const(0)
	sl, ok := v.(*ssa.Slice)
	if !ok {
		return v, lo, nil
	}
	root, base, _ := g13SliceBounds(e, sl.X)
	lo = base
	if sl.Low != nil {
		lo = base.add(e.lin(sl.Low))
	}
	if sl.High != nil {
		h := base.add(e.lin(sl.High))
		hi = &h
	}
	return root, lo, hi
}

// g13InlineResult: when v is the single result of a call to a module function with exactly one
// return, the value returned there and the parameter->argument map (one level of helper
// extraction); otherwise v and nil.
func g13InlineResult(v ssa.Value) (ssa.Value, map[ssa.Value]ssa.Value) {
	call, ok := v.(*ssa.Call)
	if !ok {
		return v, nil
	}
	callee := call.Call.StaticCallee()
	if callee == nil || callee.Blocks == nil || len(pkgPathOf(callee)) < len(nebulaMod) || pkgPathOf(callee)[:len(nebulaMod)] != nebulaMod {
		return v, nil
	}
	rets := g11Returns(callee)
	if len(rets) != 1 || len(rets[0].Results) != 1 {
		return v, nil
	}
	subst := map[ssa.Value]ssa.Value{}
	for i, p := range callee.Params {
		if i < len(call.Call.Args) {
			subst[p] = call.Call.Args[i]
		}
	}
	return rets[0].Results[0], subst
}

// g13MustStoreBool: in is a store of constant val into field f, or a call to a module function that
// stores it on every path to its returns.
func (c *Ctx) g13MustStoreBool(in ssa.Instruction, f *types.Var, val bool) bool {
	if storesFieldBool(in, f, val) {
		return true
	}
	call, ok := in.(*ssa.Call)
	if !ok {
		return false
	}
	callee := call.Call.StaticCallee()
	if callee == nil || callee.Blocks == nil {
		return false
	}
	rets := g11Returns(callee)
	if len(rets) == 0 {
		return false
	}
	for _, r := range rets {
		if av, _ := c.avoidsCut(callee, nil, r, func(x ssa.Instruction) bool { return storesFieldBool(x, f, val) }); av {
			return false
		}
	}
	return true
}

// g13Instances: the SSA functions whose source object is r, including every instantiation of a
// generic function or method (generic declarations have no body of their own in go/ssa; with
// ssa.InstantiateGenerics each instantiation used by the program gets one). Sorted by name.
func (c *Ctx) g13Instances(r Ref) []*ssa.Function {
	var out []*ssa.Function
	for f := range ssautil.AllFunctions(c.P.SSA) {
		if f.Blocks == nil || f.Synthetic != "" && f.Origin() == nil {
			continue
		}
		if matchFunc(fnObj(f), r) {
			out = append(out, f)
		}
	}
	sort.Slice(out, func(i, j int) bool { return out[i].String() < out[j].String() })
	for _, f := range out {
		c.Funcs[f.String()] = true
	}
	return out
}
