package main

import (
	"fmt"
	"go/token"
	"strings"

	"golang.org/x/tools/go/ssa"
)

func init() {
	register(&Property{
		ID: "C10", Title: "Replayed handshakes do not create or replace tunnels",
		Patterns:  []string{"."},
		Technique: "CFG guard reachability in CheckAndComplete (for-all duplicate-packet test over every tunnel of the address, staleness test polarity, index collision tests), must-pass-through storage of the handshake packets, reachability of hostmap mutators from the duplicate/stale error arms, provenance of the resent reply",
		LevelText: "Structural necessary conditions on all paths: the responder inserts a tunnel only if the first-message bytes differ from those stored on every tunnel it holds for that address (all of them, not only the primary), the peer-reported time is newer than an existing responder-side tunnel's (>= refuses), and the local index is free in both the main and pending tables; the first-message bytes and the reply are stored on the tunnel before the check; the already-seen and too-old arms reach no hostmap mutator, and the already-seen arm resends the stored original reply.",
		LevelNote: "Not decided: histories with more than five rotating tunnels (the cap rule is C28), byte equality semantics of bytes.Equal.",
		Explanation: "K1 for-all + union guards on CheckAndComplete with sink unlockedAddHostInfo, must-pass-through in beginHandshake, call-graph closure from the error arms of handleCheckAndCompleteError, K11 on the resent message",
		Run:       runC10,
		Canaries: func(c *Ctx) []Canary {
			return []Canary{
				{Name: "duplicate-test-only-primary", File: "handshake_manager.go", Old: "\t\tfor _, testHostInfo := range hm.mainHostMap.unlockedGetHostList(hostinfo.vpnAddrs[0]) {\n\t\t\tif bytes.Equal(hostinfo.HandshakePacket[handshakePacket], testHostInfo.HandshakePacket[handshakePacket]) {\n\t\t\t\treturn testHostInfo, ErrAlreadySeen\n\t\t\t}\n\t\t}\n", New: "\t\tif bytes.Equal(hostinfo.HandshakePacket[handshakePacket], existingHostInfo.HandshakePacket[handshakePacket]) {\n\t\t\treturn existingHostInfo, ErrAlreadySeen\n\t\t}\n", Rule: "C10.check"},
				{Name: "staleness-strict", File: "handshake_manager.go", Old: "if existingHostInfo.lastHandshakeTime >= hostinfo.lastHandshakeTime && !existingHostInfo.ConnectionState.initiator {", New: "if existingHostInfo.lastHandshakeTime > hostinfo.lastHandshakeTime && !existingHostInfo.ConnectionState.initiator {", Rule: "C10.check"},
				{Name: "already-seen-promotes", File: "handshake_manager.go", Old: "\t\tif msg := existing.HandshakePacket[handshakePacketStage2]; msg != nil {\n\t\t\thm.sendHandshakeResponse(via, msg, existing, true)\n\t\t}\n", New: "\t\tf.hostMap.MakePrimary(existing)\n\t\tif msg := existing.HandshakePacket[handshakePacketStage2]; msg != nil {\n\t\t\thm.sendHandshakeResponse(via, msg, existing, true)\n\t\t}\n", Rule: "C10.error-arms"},
				{Name: "stage0-not-stored", File: "handshake_manager.go", Old: "\tcopy(hostinfo.HandshakePacket[handshakePacketStage0], packet[header.Len:])\n", New: "", Rule: "C10.stored"},
				{Name: "pending-collision-ignored", File: "handshake_manager.go", Old: "\tif found && existingPendingIndex.hostinfo != hostinfo {\n\t\t// We have a collision, but for a different hostinfo\n\t\treturn existingPendingIndex.hostinfo, ErrLocalIndexCollision\n\t}\n", New: "\t_ = existingPendingIndex\n", Rule: "C10.check"},
			}
		},
	})
}

func runC10(c *Ctx) {
	c.Rule("C10.check", "K1: CheckAndComplete reaches unlockedAddHostInfo only if no tunnel held for the address stored the same first-message bytes (for-all over unlockedGetHostList), the staleness test passed (existing.time < new.time or existing was initiator), and the local index is free in Indexes and in the pending table", 5)
	c.Rule("C10.stored", "must-pass: beginHandshake stores the first-message bytes (copy) and the reply on the tunnel before CheckAndComplete", 2)
	c.Rule("C10.error-arms", "the ErrAlreadySeen and ErrExistingHostInfo arms reach no hostmap mutator; the already-seen arm resends existing.HandshakePacket[stage2]", 3)

	fHP := c.Field("", "HostInfo", "HandshakePacket")
	fTime := c.Field("", "HostInfo", "lastHandshakeTime")
	fInit := c.Field("", "ConnectionState", "initiator")
	fHosts := c.Field("", "HostMap", "Hosts")
	fIdx := c.Field("", "HostMap", "Indexes")
	fPend := c.Field("", "HandshakeManager", "indexes")
	if fn := c.Func(Ref{"", "HandshakeManager", "CheckAndComplete"}); fn != nil && fHP != nil {
		hi := fn.Params[1]
		sinks := callSinks(fn, "unlockedAddHostInfo", callTo(Ref{"", "HostMap", "unlockedAddHostInfo"}))
		fromHI := func(v ssa.Value) bool { return derivesFrom(v, sliceLocal, func(x ssa.Value) bool { return x == hi }) }
		listCall := Ref{"", "HostMap", "unlockedGetHostList"}
		fVpnC10 := c.Field("", "HostInfo", "vpnAddrs")
		// the list of every tunnel held for the *incoming* tunnel's first address
		coll := func(v ssa.Value) bool {
			call, _ := callOf(v)
			if call == nil || !matchFunc(calleeObj(call), listCall) {
				return false
			}
			key := callArgs(call)[1]
			return derivesFrom(key, sliceLocal, func(x ssa.Value) bool { return loadsField(x, fVpnC10) && fromHI(x) }) &&
				!derivesFrom(key, sliceLocal, func(x ssa.Value) bool { _, ok := x.(*ssa.Lookup); return ok })
		}
		fromList := func(v ssa.Value) bool { return derivesFrom(v, sliceLocal, coll) }
		hpOf := func(owner func(ssa.Value) bool) func(ssa.Value) bool {
			return func(v ssa.Value) bool {
				lk, ok := stripValue(v).(*ssa.Lookup)
				return ok && loadsField(lk.X, fHP) && owner(lk.X)
			}
		}
		dup := gBool("first-message bytes differ (bytes.Equal false)", false, -1, CallSpec{Refs: []Ref{{"bytes", "", "Equal"}}, Args: map[int]func(ssa.Value) bool{0: hpOf(fromHI), 1: hpOf(fromList)}})
		dupSw := gBool("first-message bytes differ (bytes.Equal false)", false, -1, CallSpec{Refs: []Ref{{"bytes", "", "Equal"}}, Args: map[int]func(ssa.Value) bool{1: hpOf(fromHI), 0: hpOf(fromList)}})
		loops := findRangeLoops(fn, coll)
		if len(loops) != 1 {
			c.Bad("C10.check", "CheckAndComplete:duplicate-for-all", c.P.Pos(fn.Pos()), fmt.Sprintf("expected one loop over unlockedGetHostList(hostinfo.vpnAddrs[0]) - every tunnel held for the incoming handshake's address -, found %d: a replay against a tunnel that is not in the scanned list would be accepted", len(loops)))
		} else {
			c.forAllGuard("C10.check", "CheckAndComplete:duplicate-for-all", fn, loops[0], sinks, gAny("first-message bytes differ", dup, dupSw))
			// the loop is skipped only when no tunnel exists for the address
			isExisting := func(v ssa.Value) bool {
				return derivesFrom(v, sliceLocal, func(x ssa.Value) bool { lk, ok := x.(*ssa.Lookup); return ok && loadsField(lk.X, fHosts) })
			}
			noTunnel := gAny("no tunnel for the address",
				gValBool("!found", false, func(v ssa.Value) bool {
					ex, ok := stripValue(v).(*ssa.Extract)
					return ok && ex.Index == 1 && isExisting(ex.Tuple)
				}),
				gValNil("existing == nil", func(v ssa.Value) bool { return isExisting(v) }))
			bypass, _ := passEdges(fn, noTunnel)
			blocked := map[Edge]bool{}
			for e := range bypass {
				blocked[e] = true
			}
			li := loops[0]
			for _, p := range li.Header.Preds {
				for i, s := range p.Succs {
					if s == li.Header {
						blocked[Edge{p, i}] = true
					}
				}
			}
			prev := reachable(fn.Blocks[0], blocked)
			okSkip := true
			for _, s := range sinks {
				if _, r := prev[s.Instr.Block()]; r {
					okSkip = false
					c.Bad("C10.check", "CheckAndComplete:duplicate-loop-entered", c.instrPos(s.Instr), "the tunnel can be inserted without running the duplicate test although a tunnel for the address exists", c.blockPath(prev, s.Instr.Block())...)
				}
			}
			if okSkip {
				c.OK("C10.check", "CheckAndComplete:duplicate-loop-entered", "skipped only when no tunnel exists for the address")
			}
			// staleness: existing.t < new.t  or existing.initiator  (or no tunnel)
			existingTime := func(v ssa.Value) bool { return loadsField(v, fTime) && !fromHI(v) }
			newTime := func(v ssa.Value) bool { return loadsField(v, fTime) && fromHI(v) }
			stale := gAny("handshake is newer than the existing responder-side tunnel",
				gCmp("existing.time < new.time", existingTime, newTime, func(op token.Token) (bool, bool) {
					switch op {
					case token.GEQ:
						return true, false
					case token.LSS:
						return true, true
					}
					return false, false
				}),
				gValBool("existing.initiator", true, func(v ssa.Value) bool { return loadsField(v, fInit) }),
				noTunnel)
			c.requireGuards("C10.check", fn, sinks, "add", stale)
		}
		commaOK := func(f *typesVar) func(ssa.Value) bool {
			return func(v ssa.Value) bool {
				ex, ok := stripValue(v).(*ssa.Extract)
				if !ok || ex.Index != 1 {
					return false
				}
				lk, ok := ex.Tuple.(*ssa.Lookup)
				return ok && loadsField(lk.X, f) && fromHI(lk.Index)
			}
		}
		c.requireGuards("C10.check", fn, sinks, "add",
			gValBool("local index not in main Indexes", false, commaOK(fIdx)),
			gAny("local index not pending for another tunnel",
				gValBool("not in pending", false, commaOK(fPend)),
				gCmp("pending entry is this tunnel", func(v ssa.Value) bool {
					return derivesFrom(v, sliceLocal, func(x ssa.Value) bool { lk, ok := x.(*ssa.Lookup); return ok && loadsField(lk.X, fPend) })
				}, func(v ssa.Value) bool { return v == hi }, mustEqual)))
	}
	// ---- stored before check
	if fn := c.Func(Ref{"", "HandshakeManager", "beginHandshake"}); fn != nil {
		pkt := fn.Params[2]
		sinks := callSinks(fn, "CheckAndComplete", callTo(Ref{"", "HandshakeManager", "CheckAndComplete"}))
		isCopy0 := func(in ssa.Instruction) bool {
			call, ok := in.(*ssa.Call)
			if !ok || builtinName(call) != "copy" {
				return false
			}
			dst, src := call.Call.Args[0], call.Call.Args[1]
			okDst := derivesFrom(dst, sliceLocal, func(x ssa.Value) bool { lk, ok := x.(*ssa.Lookup); return ok && loadsField(lk.X, fHP) })
			okSrc := derivesFrom(src, sliceLocal, func(x ssa.Value) bool { return x == pkt })
			return okDst && okSrc
		}
		isStore2 := func(in ssa.Instruction) bool {
			mu, ok := in.(*ssa.MapUpdate)
			if !ok || !loadsField(mu.Map, fHP) {
				return false
			}
			call, idx := callOf(mu.Value)
			return call != nil && idx == 0 && matchFunc(calleeObj(call), Ref{"handshake", "Machine", "ProcessPacket"})
		}
		for i, s := range sinks {
			if av, path := c.avoidsCut(fn, nil, s.Instr, isCopy0); av {
				c.Bad("C10.stored", fmt.Sprintf("beginHandshake:stage0-stored#%d", i), c.instrPos(s.Instr), "CheckAndComplete is reached without the first-message bytes copied onto the tunnel: a replay cannot be recognised later", path...)
			} else {
				c.OK("C10.stored", fmt.Sprintf("beginHandshake:stage0-stored#%d", i), "copied before the check")
			}
			// the reply: stored unless response == nil
			respNil := gValNil("response == nil", func(v ssa.Value) bool {
				call, idx := callOf(v)
				return call != nil && idx == 0 && matchFunc(calleeObj(call), Ref{"handshake", "Machine", "ProcessPacket"})
			})
			edges, _ := passEdges(fn, respNil)
			av, _ := c.avoidsCutEdges(fn, fn.Blocks[0].Instrs[0], s.Instr, isStore2, edges)
			c.Check(!av, "C10.stored", fmt.Sprintf("beginHandshake:stage2-stored#%d", i), c.instrPos(s.Instr), "reply stored before the check (unless there is none)", "CheckAndComplete is reached with a reply that was not stored on the tunnel: a retransmitted first message could not be answered with the original reply")
		}
	}
	// ---- error arms
	if fn := c.Func(Ref{"", "HandshakeManager", "handleCheckAndCompleteError"}); fn != nil {
		existing := fn.Params[2]
		mutators := []Ref{{"", "HostMap", "unlockedAddHostInfo"}, {"", "HostMap", "unlockedMakePrimary"}, {"", "HostMap", "unlockedDeleteHostInfo"}, {"", "HostMap", "unlockedInnerAddHostInfo"}, {"", "HostMap", "unlockedSetHostsForAddr"}}
		for _, arm := range []string{"ErrAlreadySeen", "ErrExistingHostInfo"} {
			armName := arm
			g := gCmp("err == "+arm, func(v ssa.Value) bool { return v == fn.Params[1] }, func(v ssa.Value) bool {
				u, ok := stripValue(v).(*ssa.UnOp)
				if !ok {
					return false
				}
				gl, ok := u.X.(*ssa.Global)
				return ok && gl.Name() == armName
			}, mustEqual)
			starts, _ := splitEdges(fn, g)
			if len(starts) != 1 {
				c.Unknown("C10.error-arms", arm, "switch arm not found")
				continue
			}
			// blocks of the arm: dominated by the arm's first block
			var armCalls []ssa.CallInstruction
			for _, b := range fn.Blocks {
				if starts[0].Dominates(b) {
					for _, in := range b.Instrs {
						if ci, ok := in.(ssa.CallInstruction); ok {
							armCalls = append(armCalls, ci)
						}
					}
				}
			}
			bad := ""
			var roots []*ssa.Function
			for _, ci := range armCalls {
				if f := ci.Common().StaticCallee(); f != nil {
					roots = append(roots, f)
				}
			}
			for _, f := range reachableFuncs(roots, func(f *ssa.Function) bool { return strings.HasPrefix(pkgPathOf(f), nebulaMod) }) {
				if o := fnObj(f); matchAny(o, mutators) {
					bad = fnName(f)
				}
			}
			c.Check(bad == "", "C10.error-arms", arm+":no-hostmap-mutation", c.P.Pos(fn.Pos()), fmt.Sprintf("%d calls in the arm, none reaches a hostmap mutator", len(armCalls)), "the "+arm+" arm can reach "+bad+": a replayed / stale first message changes the hostmap")
			if arm == "ErrAlreadySeen" {
				okMsg, n := true, 0
				for _, ci := range armCalls {
					if matchFunc(calleeObj(ci), Ref{"", "HandshakeManager", "sendHandshakeResponse"}) {
						n++
						a := callArgs(ci)
						okMsg = okMsg && derivesFrom(a[2], sliceLocal, func(x ssa.Value) bool {
							lk, ok := x.(*ssa.Lookup)
							return ok && loadsField(lk.X, fHP) && derivesFrom(lk.X, sliceLocal, func(y ssa.Value) bool { return y == existing })
						}) && a[3] == existing
					}
				}
				c.Check(okMsg && n == 1, "C10.error-arms", "ErrAlreadySeen:resend-original", c.P.Pos(fn.Pos()), "resends existing.HandshakePacket[stage2] on the existing tunnel", "the already-seen arm does not resend the stored original reply")
			}
		}
	}
}
