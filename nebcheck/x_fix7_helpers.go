package main

import (
	"fmt"
	"go/token"
	"sort"

	"golang.org/x/tools/go/ssa"
)

// Delegation of tabled functions (fix7).
//
// A rule that is anchored on a named ("tabled") function keeps holding when part of that function's
// body is extracted into a NEW unexported function of the same package, provided every caller of the
// new function is itself part of a tabled function: the new function is then a piece of the tabled
// one. fix7Delegation computes these pieces ("parts") for a set of roots, and the parameter bindings
// (parameter of a part -> the argument values at all of its call sites) that g7Origins follows, so
// that value predicates written against the root's values keep recognising them inside a part.

type fix7Part struct {
	Fn    *ssa.Function
	Root  bool
	Sites []ssa.CallInstruction // all call sites of Fn (empty for roots); each lies in a part
	Roots []*ssa.Function       // the tabled roots this part belongs to (itself for a root)
}

type fix7Delegation struct {
	c     *Ctx
	parts map[*ssa.Function]*fix7Part
}

func fix7Unexported(name string) bool {
	return name != "" && !token.IsExported(name)
}

// fix7Delegates: roots are the tabled functions; stop(fn) says fn is tabled by name in some rule (never
// a delegate). Depth of delegation is limited to 3 levels below a root.
func fix7Delegates(c *Ctx, funcs []*ssa.Function, roots []*ssa.Function, stop func(*ssa.Function) bool) *fix7Delegation {
	d := &fix7Delegation{c: c, parts: map[*ssa.Function]*fix7Part{}}
	isRoot := map[*ssa.Function]bool{}
	for _, r := range roots {
		if r != nil && !isRoot[r] {
			isRoot[r] = true
			d.parts[r] = &fix7Part{Fn: r, Root: true, Roots: []*ssa.Function{r}}
		}
	}
	// candidates: private same-package callees reachable from the roots
	cand := map[*ssa.Function]bool{}
	var order []*ssa.Function
	level := append([]*ssa.Function(nil), roots...)
	for depth := 0; depth < 3 && len(level) > 0; depth++ {
		var next []*ssa.Function
		for _, f := range level {
			if f == nil {
				continue
			}
			for _, b := range f.Blocks {
				for _, in := range b.Instrs {
					ci, ok := in.(ssa.CallInstruction)
					if !ok || ci.Common().IsInvoke() {
						continue
					}
					h := ci.Common().StaticCallee()
					if h == nil || h.Blocks == nil || h.Synthetic != "" || h.Parent() != nil || h.Pkg == nil || h.Pkg != f.Pkg {
						continue
					}
					if cand[h] || isRoot[h] || !fix7Unexported(h.Name()) || (stop != nil && stop(h)) {
						continue
					}
					cand[h] = true
					order = append(order, h)
					next = append(next, h)
				}
			}
		}
		level = next
	}
	sites := map[*ssa.Function][]ssa.CallInstruction{}
	for _, h := range order {
		ss, esc := g7Callers(funcs, h)
		if esc {
			delete(cand, h)
			continue
		}
		var keep []ssa.CallInstruction
		for _, s := range ss {
			if c.isTestHelperFile(s) {
				continue
			}
			if s.Common().IsInvoke() {
				keep = nil
				break
			}
			keep = append(keep, s)
		}
		if len(keep) == 0 {
			delete(cand, h)
			continue
		}
		sites[h] = keep
	}
	// prune to the fixpoint: every call site lies directly in the body of a root or of a candidate
	for changed := true; changed; {
		changed = false
		for _, h := range order {
			if !cand[h] {
				continue
			}
			for _, s := range sites[h] {
				p := s.Parent()
				if p == h || !(isRoot[p] || cand[p]) {
					delete(cand, h)
					changed = true
					break
				}
			}
		}
	}
	for _, h := range order {
		if cand[h] {
			d.parts[h] = &fix7Part{Fn: h, Sites: sites[h]}
		}
	}
	// roots of each part (cycles among helpers cannot reach a root and are dropped)
	var rootsOf func(p *fix7Part, seen map[*ssa.Function]bool) []*ssa.Function
	rootsOf = func(p *fix7Part, seen map[*ssa.Function]bool) []*ssa.Function {
		if p.Root {
			return []*ssa.Function{p.Fn}
		}
		if seen[p.Fn] {
			return nil
		}
		seen[p.Fn] = true
		set := map[*ssa.Function]bool{}
		for _, s := range p.Sites {
			for _, r := range rootsOf(d.parts[s.Parent()], seen) {
				set[r] = true
			}
		}
		var out []*ssa.Function
		for r := range set {
			out = append(out, r)
		}
		sort.Slice(out, func(i, j int) bool { return fnName(out[i]) < fnName(out[j]) })
		return out
	}
	for _, h := range order {
		if p := d.parts[h]; p != nil {
			p.Roots = rootsOf(p, map[*ssa.Function]bool{})
			if len(p.Roots) == 0 {
				delete(d.parts, h)
			}
		}
	}
	return d
}

// bind publishes the parameter bindings of every delegate to g7Origins; the returned function removes
// them again.
func (d *fix7Delegation) bind() func() {
	var bound []*ssa.Parameter
	for _, p := range d.parts {
		if p.Root {
			continue
		}
		for i, prm := range p.Fn.Params {
			var vals []ssa.Value
			ok := true
			for _, s := range p.Sites {
				a := s.Common().Args
				if i >= len(a) {
					ok = false
					break
				}
				vals = append(vals, a[i])
			}
			if ok && len(vals) > 0 {
				g7ParamBinds[prm] = vals
				bound = append(bound, prm)
			}
		}
	}
	return func() {
		for _, prm := range bound {
			delete(g7ParamBinds, prm)
		}
	}
}

// partOf: the part whose body (or closure) contains the instruction.
func (d *fix7Delegation) partOf(in ssa.Instruction) *fix7Part {
	if in == nil || in.Parent() == nil {
		return nil
	}
	return d.parts[topFunc(in.Parent())]
}

// partsOf lists root and the delegates that belong to root only, root first, in source order.
func (d *fix7Delegation) partsOf(root *ssa.Function) []*fix7Part {
	var out []*fix7Part
	if p := d.parts[root]; p != nil {
		out = append(out, p)
	}
	var rest []*fix7Part
	for _, p := range d.parts {
		if !p.Root && len(p.Roots) == 1 && p.Roots[0] == root {
			rest = append(rest, p)
		}
	}
	sort.Slice(rest, func(i, j int) bool { return rest[i].Fn.Pos() < rest[j].Fn.Pos() })
	return append(out, rest...)
}

// rootNames: the names of the tabled functions fn is a piece of (fn's own name when it is no delegate).
func (d *fix7Delegation) rootNames(fn *ssa.Function) []string {
	t := topFunc(fn)
	p := d.parts[t]
	if p == nil || p.Root {
		return []string{fnName(t)}
	}
	var out []string
	for _, r := range p.Roots {
		out = append(out, fnName(r))
	}
	return out
}

func (d *fix7Delegation) isDelegate(fn *ssa.Function) bool {
	p := d.parts[topFunc(fn)]
	return p != nil && !p.Root
}

// callerChain lists the functions above a delegate (its callers' parts, transitively).
func (d *fix7Delegation) callerChain(fn *ssa.Function) []*ssa.Function {
	seen := map[*ssa.Function]bool{}
	var out []*ssa.Function
	var walk func(p *fix7Part)
	walk = func(p *fix7Part) {
		if p == nil {
			return
		}
		for _, s := range p.Sites {
			q := s.Parent()
			if !seen[q] {
				seen[q] = true
				out = append(out, q)
				walk(d.parts[q])
			}
		}
	}
	walk(d.parts[topFunc(fn)])
	return out
}

// holds: every path to the sink passes g, inside the sink's own part, or - for a delegate - on every
// path to every call site of the delegate (recursively up to the roots). matched counts the tests of g
// seen in the functions that were consulted.
func (d *fix7Delegation) holds(s Sink, g Guard, depth int) (ok bool, matched int, path []string) {
	p := d.partOf(s.Instr)
	if p == nil {
		fn := s.Instr.Parent()
		return d.c.mustPass(fn, s, g)
	}
	fn := p.Fn
	if s.Instr.Parent() != fn {
		fn = s.Instr.Parent() // a closure: judged in its own body as before
	}
	ok, n, path := d.c.mustPass(fn, s, g)
	if ok && n > 0 {
		return true, n, nil
	}
	if p.Root || depth >= 3 || len(p.Sites) == 0 {
		return ok, n, path
	}
	if ok && n == 0 {
		// unreachable in the helper without any test: keep the verdict of mustPass
		return ok, n, path
	}
	total := n
	for _, cs := range p.Sites {
		ok2, n2, path2 := d.holds(Sink{Instr: cs, Desc: "call of " + fnName(p.Fn)}, g, depth+1)
		total += n2
		if !ok2 {
			return false, total, append(append([]string{}, path2...), append([]string{"-> " + fnName(p.Fn)}, path...)...)
		}
	}
	return true, total, nil
}

// requireGuards is Ctx.requireGuards over the parts of root: same constructs, same verdicts when all
// sinks lie in root itself.
func (d *fix7Delegation) requireGuards(rule string, root *ssa.Function, sinks []Sink, sinkName string, guards ...Guard) {
	c := d.c
	if root == nil {
		return
	}
	if len(sinks) == 0 {
		c.Unknown(rule, fnName(root)+":"+sinkName, "no sink instance found (the guarded construct is gone): cannot decide")
		return
	}
	for _, g := range guards {
		allOK := true
		matched := 0
		for i, s := range sinks {
			ok, n, path := d.holds(s, g, 0)
			if n > matched {
				matched = n
			}
			if !ok {
				allOK = false
				c.Bad(rule, fmt.Sprintf("%s:%s#%d<-%s", fnName(root), sinkName, i, g.Name), c.instrPos(s.Instr),
					fmt.Sprintf("%s is reachable without passing the test %q (%d matching tests found in the function and its callers)", sinkName, g.Name, n), path...)
			}
		}
		if allOK {
			if matched == 0 {
				c.Unknown(rule, fmt.Sprintf("%s:%s<-%s", fnName(root), sinkName, g.Name), "guard test not found and sink unreachable: unrecognised shape")
				continue
			}
			c.OK(rule, fmt.Sprintf("%s:%s<-%s", fnName(root), sinkName, g.Name), fmt.Sprintf("%d sink(s), every path passes one of %d test(s)", len(sinks), matched))
		}
	}
}
