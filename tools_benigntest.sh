#!/bin/bash
# usage: tools_benigntest.sh <patch.diff>   applies a behaviour-preserving patch to a scratch worktree and runs EVERY check on it;
# prints the checks that do not exit 0 (each such line is a false alarm to triage)
patch=$1; name=$(echo $patch | tr '/.' '__')
wt=/tmp/benignrepo$name; sv=${wt}_verif
[ -d $wt ] || git -C /repo worktree add --detach $wt HEAD >/dev/null 2>&1
git -C $wt checkout -q --detach $(git -C /repo rev-parse HEAD); git -C $wt checkout -q -- .; git -C $wt clean -fdq
mkdir -p $sv; cp /verif/known_findings.json $sv/
git -C $wt apply $patch || { echo "$patch DOES NOT APPLY"; exit 2; }
bad=0
for p in $(${NEBCHECK_BIN:-/verif/bin/nebcheck} -list | awk '{print $1}'); do
  out=$(NEBCHECK_REPO=$wt NEBCHECK_VERIF=$sv ${NEBCHECK_BIN:-/verif/bin/nebcheck} -p $p 2>&1); code=$?
  if [ $code != 0 ]; then bad=$((bad+1)); echo "## $patch $p exit=$code"; echo "$out" | grep -E "^  rule=|^UNDECIDED" | cut -c1-260 | head -6; fi
done
echo "== $patch: $bad checks not exit 0"
git -C /repo worktree remove --force $wt >/dev/null 2>&1; rm -rf $sv
