#!/bin/bash
# usage: tools_seedtest.sh <patch.diff> <prop ids...>   applies the seed to /repo, runs the checks, reverts
set -u
patch=$1; shift
cd /repo || exit 2
if ! git apply --check "$patch" 2>/dev/null; then echo "PATCH DOES NOT APPLY: $patch"; exit 2; fi
git apply "$patch"
for p in "$@"; do
  out=$(/verif/bin/nebcheck -p "$p" 2>&1); code=$?
  echo "== $p exit=$code"
  echo "$out" | grep -E "^  rule=|VIOLATION|UNDECIDED|KNOWN" | cut -c1-400
done
git -C /repo checkout -- .
git -C /repo status --short | head -3
