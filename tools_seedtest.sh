#!/bin/bash
# usage: tools_seedtest.sh <patch.diff> <prop ids...>
# applies the seed to a scratch worktree of /repo's HEAD (/tmp/seedrepo; other work keeps reading /repo undisturbed), runs the
# checks against it with output to a scratch verif dir (so /verif/evidence keeps describing the unchanged tree), and reverts.
set -u
patch=$1; shift
wt=${SEEDTEST_WT:-/tmp/seedrepo}; sv=${wt}_verif
(
flock 9
[ -d $wt ] || git -C /repo worktree add --detach $wt HEAD >/dev/null 2>&1
git -C $wt checkout -q --detach $(git -C /repo rev-parse HEAD) && git -C $wt checkout -q -- . && git -C $wt clean -fdq
mkdir -p $sv; cp /verif/known_findings.json $sv/
cd $wt || exit 2
if ! git apply --check "$patch" 2>/dev/null; then echo "PATCH DOES NOT APPLY: $patch"; exit 2; fi
git apply "$patch"
for p in "$@"; do
  out=$(NEBCHECK_REPO=$wt NEBCHECK_VERIF=$sv ${NEBCHECK_BIN:-/verif/bin/nebcheck} -p "$p" 2>&1); code=$?
  echo "== $p exit=$code"
  echo "$out" | grep -E "^  rule=|VIOLATION|UNDECIDED|KNOWN" | cut -c1-400
done
git -C $wt checkout -q -- .
) 9>${wt}.lock
