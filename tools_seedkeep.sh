#!/bin/bash
# usage: tools_seedkeep.sh <ID[sfx]> <prop> "<needs to manifest>" <check ids...>
# confirms the seed in its scratch worktree (tools_seedconfirm.sh), runs the named checks against it (applied to /repo, reverted),
# and stores it as /verif/seeded/<ID[sfx]>/ {patch.diff, demo test, meta.json}
key=$1; prop=$2; needs=$3; shift 3
out=/tmp/seedout/$key; dst=/verif/seeded/$key
[ -f $out/confirm.txt ] && grep -q "suite WITH change" $out/confirm.txt || /verif/tools_seedconfirm.sh $key > /dev/null
cat $out/confirm.txt
wo=$(grep -o "demo WITHOUT change: exit=[0-9]*" $out/confirm.txt | tail -1 | grep -o "[0-9]*$")
wi=$(grep -o "demo WITH change: exit=[0-9]*" $out/confirm.txt | tail -1 | grep -o "[0-9]*$")
bu=$(grep -o "build with change: exit=[0-9]*" $out/confirm.txt | tail -1 | grep -o "[0-9]*$")
su=$(grep -o "suite WITH change: exit=[0-9]*" $out/confirm.txt | tail -1 | grep -o "[0-9]*$")
if [ "$wo" != 0 ] || [ "$wi" = 0 ] || [ "$bu" != 0 ] || [ "$su" != 0 ]; then echo "NOT CONFIRMED (without=$wo with=$wi build=$bu suite=$su)"; exit 1; fi
res=$(/verif/tools_seedtest.sh $out/patch.diff "$@")
echo "$res"
mkdir -p $dst
cp $out/patch.diff $dst/; cp $out/*_test.go $dst/; cp $out/demo_path.txt $dst/notes.txt
det=$(echo "$res" | grep "^== " | tr '\n' ' ')
jq -n --arg p "$prop" --arg needs "$needs" --arg det "$det" --arg cmd "$(head -1 $out/demo_path.txt)" --arg rules "$(echo "$res" | grep 'rule=' | sed 's/^ *//' | cut -c1-300)" \
  '{property:$p, needs_to_manifest:$needs, demo_cmd:$cmd, confirmed:{demo_without_change:"pass", demo_with_change:"fail", build_with_change:"ok", existing_suite_with_change:"pass (go1.26.8 test -vet=off -count=1 ./...)"}, ran:"tools_seedconfirm.sh (scratch worktree) then tools_seedtest.sh (git -C /repo apply; nebcheck -p <id>; git checkout)", checks:$det, reported:$rules}' > $dst/meta.json
cat $dst/meta.json
