package batch

// Demonstration for finding F14 (property C23). Copy into /repo/overlay/batch/ and run:
//   go1.26.8 test -vet=off -count=1 -run TestG11UDPLen ./overlay/batch/
// Before the fix a UDP datagram whose length field is shorter than the IP payload was coalesced by the UDP field: the trailing
// IP payload bytes vanished from the superpacket (288 bytes in, 256 out).

import (
	"encoding/binary"
	"testing"
)

func TestG11UDPLenShorterThanIPPayload(t *testing.T) {
	w := &fakeTunWriter{gsoEnabled: true}
	c := newTestUDPCoalescer(t, w)
	mk := func() []byte {
		p := buildUDPv4(1000, 53, make([]byte, 116)) // IP total = 20+8+116
		binary.BigEndian.PutUint16(p[24:26], 8+100)  // UDP says 100 bytes of payload
		return p
	}
	in := 0
	for i := 0; i < 2; i++ {
		p := mk()
		in += len(p)
		_ = c.Commit(p)
	}
	_ = c.Flush()
	out := 0
	for _, b := range w.writes {
		out += len(b)
	}
	for _, g := range w.gsoWrites {
		for _, p := range g.pays {
			out += len(g.hdr) + len(p)
		}
	}
	if in != out {
		t.Fatalf("bytes in=%d, after segmentation=%d", in, out)
	}
}
