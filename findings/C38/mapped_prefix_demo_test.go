// Demonstration for property C38. Copy into /repo/ and run: go1.26.8 test -vet=off -count=1 -run 'C38' .
package nebula

import (
	"net/netip"
	"testing"
)

func TestG6C38MappedPrefix(t *testing.T) {
	// deny 10.0.0.0/8 written in IPv4-mapped form; everything else allowed by the implicit default
	al, err := newAllowList("k", map[string]any{"::ffff:10.0.0.0/104": false}, nil)
	if err != nil {
		t.Fatal(err)
	}
	ref, _ := newAllowList("k", map[string]any{"10.0.0.0/8": false}, nil)
	a := netip.MustParseAddr("10.1.2.3")
	t.Logf("plain form: Allow(%v)=%v ; mapped form: Allow(%v)=%v", a, ref.Allow(a), a, al.Allow(a))
	if al.Allow(a) != ref.Allow(a) {
		t.Errorf("mapped prefix ::ffff:10.0.0.0/104 is not treated as 10.0.0.0/8: Allow(%v)=%v, want %v", a, al.Allow(a), ref.Allow(a))
	}
	p := netip.MustParsePrefix("::ffff:10.0.0.0/104")
	q := netip.PrefixFrom(p.Addr().Unmap(), p.Bits())
	t.Logf("PrefixFrom(Unmap, Bits) = %v valid=%v", q, q.IsValid())
}
