package nebula

// Demonstration for finding F8 (property C49). Copy into /repo/ and run
//   go1.26.8 test -vet=off -count=1 -run TestF8 .
// Before the fix: once the service context is cancelled the lighthouse query worker is gone, and the (buffer+1)-th
// QueryServer call - made from a tun reader (listenIn) or the handshake manager - blocks forever on the unbuffered-at-that-point
// channel send, so the reader never observes its closed device and Control.Wait never returns.

import (
	"context"
	"fmt"
	"net/netip"
	"testing"
	"time"

	"github.com/gaissmai/bart"
	"github.com/slackhq/nebula/config"
	"github.com/slackhq/nebula/test"
)

func TestF8QueryServerAfterStopDoesNotBlock(t *testing.T) {
	l := test.NewLogger()
	myVpnNet := netip.MustParsePrefix("10.128.0.1/24")
	nt := new(bart.Lite)
	nt.Insert(myVpnNet)
	cs := &CertState{myVpnNetworks: []netip.Prefix{myVpnNet}, myVpnNetworksTable: nt}
	c := config.NewC(l)
	c.Settings["lighthouse"] = map[string]any{"hosts": []any{"10.128.0.2"}, "interval": "1s"}
	c.Settings["static_host_map"] = map[string]any{"10.128.0.2": []any{"1.1.1.1:4242"}}
	ctx, cancel := context.WithCancel(context.Background())
	lh, err := NewLightHouseFromConfig(ctx, l, c, cs, nil, nil)
	if err != nil {
		t.Fatal(err)
	}
	lh.ifce = &mockEncWriter{}
	// the node is stopped: the service context is cancelled (the query worker, had it been started, returns on it)
	cancel()
	done := make(chan struct{})
	go func() {
		defer close(done)
		// queued lighthouse work: one more unknown destination than the queue holds
		for i := 0; i <= cap(lh.queryChan); i++ {
			lh.QueryServer(netip.MustParseAddr(fmt.Sprintf("10.128.0.%d", 3+i)))
		}
	}()
	select {
	case <-done:
	case <-time.After(3 * time.Second):
		t.Fatal("QueryServer blocked forever after the service context was cancelled (queue full, worker gone)")
	}
}
