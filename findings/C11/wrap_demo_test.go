package nebula

// Demonstration for finding F3 (property C11). Copy into /repo/ and run
//   go1.26.8 test -vet=off -count=1 -run TestF3 .
// Before the fix, with counters near 2^64: a jump computed current+length modulo 2^64, cleared the whole window and an already
// accepted counter was accepted a second time; and with current == MaxUint64 the counter 0 was accepted as "next".

import (
	"math"
	"testing"

	"github.com/slackhq/nebula/test"
)

func TestF3ReplayWindowNearUint64Max(t *testing.T) {
	l := test.NewLogger()
	b := NewBits(16)
	top := uint64(math.MaxUint64)
	if !b.Update(l, top-11) || !b.Update(l, top-10) {
		t.Fatal("first acceptance of fresh counters")
	}
	if !b.Update(l, top-1) {
		t.Fatal("jump inside the window must be accepted")
	}
	if b.Check(l, top-11) || b.Update(l, top-11) {
		t.Fatal("counter 2^64-12 accepted twice")
	}
	if !b.Update(l, top) {
		t.Fatal("MaxUint64 is fresh")
	}
	if b.Check(l, 0) {
		t.Fatal("Check(0) must be false at current=MaxUint64")
	}
	if b.Update(l, 0) {
		t.Fatal("counter 0 accepted after MaxUint64 (window reset)")
	}
	if b.current != top {
		t.Fatalf("current moved to %d", b.current)
	}
}
