package overlay

// Demonstration for finding F7 (property C41). Copy into /repo/overlay/ and run
//   go1.26.8 test -vet=off -count=1 -run TestF7 ./overlay/
// Before the fix: metric "100" loaded as 0, weight "5" was refused as out of range (value 0), and
// non-int non-string YAML values (mtu: 1500.5, metric: true) panicked.

import (
	"net/netip"
	"testing"

	"github.com/slackhq/nebula/config"
	"github.com/slackhq/nebula/routing"
	"github.com/slackhq/nebula/test"
)

func TestF7UnsafeRouteStringNumbers(t *testing.T) {
	l := test.NewLogger()
	nets := []netip.Prefix{netip.MustParsePrefix("10.0.0.0/24")}
	c := config.NewC(l)
	c.Settings["tun"] = map[string]any{"unsafe_routes": []any{
		map[string]any{"route": "1.0.0.0/8", "metric": "100", "mtu": "1400", "via": []any{
			map[string]any{"gateway": "10.0.0.2", "weight": "5"},
			map[string]any{"gateway": "10.0.0.3", "weight": 7},
		}},
	}}
	routes, err := parseUnsafeRoutes(c, nets)
	if err != nil {
		t.Fatalf("decimal strings must load: %v", err)
	}
	if routes[0].Metric != 100 || routes[0].MTU != 1400 {
		t.Fatalf("metric/mtu given as decimal strings must take the stated value, got metric=%d mtu=%d", routes[0].Metric, routes[0].MTU)
	}
	want := routing.Gateways{routing.NewGateway(netip.MustParseAddr("10.0.0.2"), 5), routing.NewGateway(netip.MustParseAddr("10.0.0.3"), 7)}
	if w := routes[0].Via.String(); w != want.String() {
		t.Fatalf("weights: %v", w)
	}
	for _, bad := range []map[string]any{
		{"route": "1.0.0.0/8", "via": "10.0.0.2", "mtu": 1500.5},
		{"route": "1.0.0.0/8", "via": "10.0.0.2", "metric": true},
		{"route": "1.0.0.0/8", "via": []any{map[string]any{"gateway": "10.0.0.2", "weight": 2.5}}},
	} {
		func() {
			defer func() {
				if r := recover(); r != nil {
					t.Errorf("%v: panic %v", bad, r)
				}
			}()
			c.Settings["tun"] = map[string]any{"unsafe_routes": []any{bad}}
			if _, err := parseUnsafeRoutes(c, nets); err == nil {
				t.Errorf("%v: expected an error", bad)
			}
		}()
	}
	c.Settings["tun"] = map[string]any{"routes": []any{map[string]any{"route": "10.0.0.0/29", "mtu": 9000.5}}}
	func() {
		defer func() {
			if r := recover(); r != nil {
				t.Errorf("routes mtu float: panic %v", r)
			}
		}()
		if _, err := parseRoutes(c, nets); err == nil {
			t.Errorf("routes mtu float: expected an error")
		}
	}()
}
