package handshake

// Demonstration for finding F2 (property C07). Place in /repo/handshake/ and run
//   go1.26.8 test -count=1 -run TestFindingC07 ./handshake/
// Before the fix commit it fails (the genuine reply is refused while Failed()==false);
// after it passes (the truncated reply marks the machine failed, so the caller abandons it).

import (
	"net/netip"
	"testing"
	"time"

	"github.com/slackhq/nebula/cert"
	ct "github.com/slackhq/nebula/cert_test"
	"github.com/slackhq/nebula/header"
)

func TestFindingC07_TruncatedReplyDoesNotWedge(t *testing.T) {
	ca, _, caKey, _ := ct.NewTestCaCert(cert.Version2, cert.Curve_CURVE25519, time.Time{}, time.Time{}, nil, nil, nil)
	v := testVerifier(ct.NewTestCAPool(ca))
	initCS := newTestCertState(t, ca, caKey, "init", []netip.Prefix{netip.MustParsePrefix("10.0.0.1/24")})
	respCS := newTestCertState(t, ca, caKey, "resp", []netip.Prefix{netip.MustParsePrefix("10.0.0.2/24")})
	initM := newTestMachine(t, initCS, v, true, 100)
	msg1, err := initM.Initiate(nil)
	if err != nil {
		t.Fatal(err)
	}
	respM := newTestMachine(t, respCS, v, false, 200)
	resp, _, err := respM.ProcessPacket(nil, msg1)
	if err != nil {
		t.Fatal(err)
	}
	// keep the header and the 32-byte ephemeral plus 16 more bytes: noise consumes `e`, mixes it
	// into its hash, then reports ErrShortMessage for `s` without rolling back.
	trunc := append([]byte{}, resp[:header.Len+48]...)
	_, _, err = initM.ProcessPacket(nil, trunc)
	if err == nil {
		t.Fatal("truncated reply accepted")
	}
	if initM.Failed() {
		// the machine says it is unusable: the contract holds (every later input is refused)
		if _, _, err := initM.ProcessPacket(nil, resp); err == nil {
			t.Fatal("failed machine accepted input")
		}
		return
	}
	// the machine says it is still usable: the genuine reply must complete
	_, result, err := initM.ProcessPacket(nil, resp)
	if err != nil || result == nil {
		t.Fatalf("machine reported itself usable after the rejected message, but the genuine reply no longer completes: %v", err)
	}
}
