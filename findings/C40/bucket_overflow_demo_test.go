// Demonstration for finding F12 (property C40). Copy into /repo/routing/ and run: go1.26.8 test -vet=off -count=1 ./routing/
package routing

import (
	"math"
	"net/netip"
	"testing"

	"github.com/slackhq/nebula/firewall"
)

func TestG12BucketOverflow(t *testing.T) {
	for _, n := range []int{2, 4, 5, 8} {
		gws := make([]Gateway, n)
		for i := range gws {
			gws[i] = NewGateway(netip.MustParseAddr("10.0.0.1"), math.MaxInt32)
		}
		CalculateBucketsForGateways(gws)
		prev := -1
		bad := false
		for i := range gws {
			if gws[i].bucketUpperBound <= prev {
				bad = true
			}
			prev = gws[i].bucketUpperBound
		}
		last := gws[n-1].bucketUpperBound
		t.Logf("n=%d bounds last=%d want=%d monotone=%v", n, last, math.MaxInt32, !bad)
		for i := range gws {
			t.Logf("   [%d]=%d", i, gws[i].bucketUpperBound)
		}
		// a concrete packet
		p := &firewall.Packet{LocalPort: 1, RemotePort: 2}
		miss := 0
		for lp := 0; lp < 2000; lp++ {
			p.LocalPort = uint16(lp)
			if _, ok := BalancePacket(p, gws); !ok {
				miss++
			}
		}
		if last != math.MaxInt32 || bad || miss > 0 {
			t.Errorf("n=%d: last bound %d != MaxInt32 or non-monotone (%v); %d/2000 packets fell out of every bucket", n, last, bad, miss)
		}
	}
}
