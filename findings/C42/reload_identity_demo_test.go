// Demonstration for property C42. Copy into /repo/ and run: go1.26.8 test -vet=off -count=1 -run 'G10.*(Reload|PKI|Cert)|TestG10' .
package nebula

import (
	"net/netip"
	"testing"
	"time"

	"github.com/slackhq/nebula/cert"
	ct "github.com/slackhq/nebula/cert_test"
	"github.com/slackhq/nebula/config"
	"github.com/slackhq/nebula/test"
)

func g10cfg(l any, ca, crt, key []byte) map[string]any {
	return map[string]any{"pki": map[string]any{"ca": string(ca), "cert": string(crt), "key": string(key)}}
}

func TestG10ReloadV1OnlyToV2OnlyChangesIdentity(t *testing.T) {
	l := test.NewLogger()
	now := time.Now()
	ca, _, caKey, caPEM := ct.NewTestCaCert(cert.Version2, cert.Curve_CURVE25519, now.Add(-time.Hour), now.Add(time.Hour), nil, nil, nil)
	caP, _, caKeyP, caPEMP := ct.NewTestCaCert(cert.Version2, cert.Curve_P256, now.Add(-time.Hour), now.Add(time.Hour), nil, nil, nil)
	_, _, k1, c1 := ct.NewTestCert(cert.Version1, cert.Curve_CURVE25519, ca, caKey, "node", now.Add(-time.Minute), now.Add(time.Minute), []netip.Prefix{netip.MustParsePrefix("10.0.0.1/24")}, nil, nil)
	_, _, k2, c2 := ct.NewTestCert(cert.Version2, cert.Curve_P256, caP, caKeyP, "node", now.Add(-time.Minute), now.Add(time.Minute), []netip.Prefix{netip.MustParsePrefix("10.9.9.9/24")}, nil, nil)
	cas := append(append([]byte{}, caPEM...), caPEMP...)

	c := config.NewC(l)
	c.Settings = g10cfg(l, cas, c1, k1)
	p, err := NewPKIFromConfig(l, c)
	if err != nil {
		t.Fatal(err)
	}
	before := p.getCertState()
	t.Logf("before: networks=%v curve=%v v1=%v v2=%v", before.myVpnNetworks, before.GetDefaultCertificate().Curve(), before.v1Cert != nil, before.v2Cert != nil)

	c.Settings = g10cfg(l, cas, c2, k2)
	rerr := p.reloadCerts(c, false)
	after := p.getCertState()
	t.Logf("reload err=%v; after: networks=%v curve=%v v1=%v v2=%v", rerr, after.myVpnNetworks, after.GetDefaultCertificate().Curve(), after.v1Cert != nil, after.v2Cert != nil)
	if rerr == nil && after.myVpnNetworks[0] != before.myVpnNetworks[0] {
		t.Errorf("reload changed the node's overlay network from %v to %v and the curve from %v to %v", before.myVpnNetworks, after.myVpnNetworks, before.GetDefaultCertificate().Curve(), after.GetDefaultCertificate().Curve())
	}
}

func TestG10ReloadV2OnlyToV1OnlyChangesCurve(t *testing.T) {
	l := test.NewLogger()
	now := time.Now()
	ca, _, caKey, caPEM := ct.NewTestCaCert(cert.Version2, cert.Curve_CURVE25519, now.Add(-time.Hour), now.Add(time.Hour), nil, nil, nil)
	nets := []netip.Prefix{netip.MustParsePrefix("10.0.0.1/24")}
	caP, _, caKeyP, caPEMP := ct.NewTestCaCert(cert.Version2, cert.Curve_P256, now.Add(-time.Hour), now.Add(time.Hour), nil, nil, nil)
	caPEM = append(append([]byte{}, caPEM...), caPEMP...)
	_, _, k2, c2 := ct.NewTestCert(cert.Version2, cert.Curve_P256, caP, caKeyP, "node", now.Add(-time.Minute), now.Add(time.Minute), nets, nil, nil)
	_, _, k1, c1 := ct.NewTestCert(cert.Version1, cert.Curve_CURVE25519, ca, caKey, "node", now.Add(-time.Minute), now.Add(time.Minute), nets, nil, nil)

	c := config.NewC(l)
	c.Settings = g10cfg(l, caPEM, c2, k2)
	p, err := NewPKIFromConfig(l, c)
	if err != nil {
		t.Fatal(err)
	}
	before := p.getCertState()
	c.Settings = g10cfg(l, caPEM, c1, k1)
	rerr := p.reloadCerts(c, false)
	after := p.getCertState()
	t.Logf("reload err=%v; curve before=%v after=%v", rerr, before.GetDefaultCertificate().Curve(), after.GetDefaultCertificate().Curve())
	if rerr == nil && before.GetDefaultCertificate().Curve() != after.GetDefaultCertificate().Curve() {
		t.Errorf("reload changed the node's curve from %v to %v", before.GetDefaultCertificate().Curve(), after.GetDefaultCertificate().Curve())
	}
}
