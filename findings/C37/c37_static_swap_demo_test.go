// Demonstration for property C37. Copy into /repo/ and run: go1.26.8 test -vet=off -count=1 -run 'C37' .
package nebula

import (
	"net/netip"
	"testing"
	"time"

	"github.com/gaissmai/bart"
	"github.com/slackhq/nebula/config"
	"github.com/slackhq/nebula/test"
)

// static_host_map entry changes from a literal address to a hostname; a reader runs between the two
// phases of the reload (ResetForOwner ... addStaticRemotes), as a concurrent handshake retry would.
func TestG6C37StaticSwapNotDirty(t *testing.T) {
	l := test.NewLogger()
	c := config.NewC(l)
	c.Settings["lighthouse"] = map[string]any{"am_lighthouse": true}
	c.Settings["listen"] = map[string]any{"port": 4242}
	c.Settings["static_host_map"] = map[string]any{"10.128.0.2": []any{"1.1.1.1:4242"}}
	myVpnNet := netip.MustParsePrefix("10.128.0.1/24")
	nt := new(bart.Lite)
	nt.Insert(myVpnNet)
	cs := &CertState{myVpnNetworks: []netip.Prefix{myVpnNet}, myVpnNetworksTable: nt}
	lh, err := NewLightHouseFromConfig(t.Context(), l, c, cs, nil, nil)
	if err != nil {
		t.Fatal(err)
	}
	staticHost := netip.MustParseAddr("10.128.0.2")
	rl := lh.Query(staticHost)
	if got := rl.CopyAddrs(nil); len(got) != 1 {
		t.Fatalf("setup: %v", got)
	}
	// reload phase 1 (lighthouse.go reload): drop what we contributed as owner
	rl.ResetForOwner(myVpnNet.Addr())
	// a reader in between: the old DNS holder still lists 1.1.1.1, fine so far
	t.Logf("between phases: %v", rl.CopyAddrs(nil))
	// reload phase 2 (loadStaticMap -> addStaticRemotes): the entry is now a hostname only
	if err := lh.addStaticRemotes(0, time.Hour, "ip4", time.Second, staticHost, []string{"does-not-resolve.invalid:4242"}, map[netip.Addr]struct{}{}); err != nil {
		t.Fatal(err)
	}
	rl.RLock()
	holder := rl.hr.GetAddrs()
	rl.RUnlock()
	got := rl.CopyAddrs(nil)
	if len(holder) == 0 && len(got) != 0 {
		t.Errorf("no source holds an address any more (reported cleared, new DNS holder empty) but CopyAddrs=%v", got)
	}
}
