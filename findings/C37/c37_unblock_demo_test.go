// Demonstration for property C37. Copy into /repo/ and run: go1.26.8 test -vet=off -count=1 -run 'C37' .
package nebula

import (
	"net/netip"
	"testing"
)

// Learn x, block x, read (rebuild drops x), unblock via RefreshFromHandshake / ResetBlockedRemotes, read again.
func TestG6C37UnblockNotDirty(t *testing.T) {
	owner := netip.MustParseAddr("10.0.0.1")
	x := netip.MustParseAddrPort("1.2.3.4:4242")
	for _, unblock := range []string{"RefreshFromHandshake", "ResetBlockedRemotes"} {
		rl := NewRemoteList([]netip.Addr{owner}, nil)
		rl.LearnRemote(owner, x)
		rl.BlockRemote(ViaSender{UdpAddr: x})
		if got := rl.CopyAddrs(nil); len(got) != 0 {
			t.Fatalf("blocked address still listed: %v", got)
		}
		switch unblock {
		case "RefreshFromHandshake":
			rl.RefreshFromHandshake([]netip.Addr{owner})
		default:
			rl.ResetBlockedRemotes()
		}
		if b := rl.CopyBlockedRemotes(); len(b) != 0 {
			t.Fatalf("still blocked: %v", b)
		}
		got := rl.CopyAddrs(nil)
		if len(got) != 1 || got[0] != x {
			t.Errorf("%s: blocked set is empty, learned=%v, but CopyAddrs=%v", unblock, x, got)
		}
	}
}
