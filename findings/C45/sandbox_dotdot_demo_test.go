// Demonstration for property C45. Copy into /repo/ and run: go1.26.8 test -vet=off -count=1 -run 'TestG10Sandbox' .
package nebula

import (
	"path/filepath"
	"strings"
	"testing"
)

// With sshd.sandbox_dir: ".." the debug command argument "../x" is accepted and resolves to
// "../../x", outside the sandbox.
func TestG10SandboxDotDot(t *testing.T) {
	for _, tc := range []struct{ sandbox, in string }{{"..", "../x"}, {"../..", "../x"}, {"..", "../../etc/passwd"}} {
		got, err := sshSanitizeFilePath(tc.sandbox, tc.in)
		if err != nil {
			continue
		}
		absGot, _ := filepath.Abs(got)
		absSb, _ := filepath.Abs(tc.sandbox)
		if !strings.HasPrefix(absGot, absSb+string(filepath.Separator)) {
			t.Errorf("sandbox=%q input=%q accepted as %q (=%s), outside the sandbox %s", tc.sandbox, tc.in, got, absGot, absSb)
		}
	}
}
