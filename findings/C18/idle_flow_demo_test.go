// Demonstration for finding F16 (property C18). Copy into /repo/ and run: go1.26.8 test -vet=off -count=1 -run 'C18' .
package nebula

import (
	"bytes"
	"net/netip"
	"testing"
	"time"

	"github.com/gaissmai/bart"
	"github.com/slackhq/nebula/cert"
	"github.com/slackhq/nebula/firewall"
	"github.com/slackhq/nebula/test"
)

// C18 reproduction: an idle flow is honoured long after its protocol timeout when there is no
// unrelated flow churn (nothing advances the conntrack timer wheel, and inConns never compares
// conn.Expires with the clock).
func TestC18_IdleFlowHonouredAfterTimeout(t *testing.T) {
	l := test.NewLoggerWithOutput(&bytes.Buffer{})
	myVpnNetworksTable := new(bart.Lite)
	myVpnNetworksTable.Insert(netip.MustParsePrefix("1.1.1.1/8"))
	p := firewall.Packet{
		LocalAddr: netip.MustParseAddr("1.2.3.4"), RemoteAddr: netip.MustParseAddr("1.2.3.4"),
		LocalPort: 10, RemotePort: 90, Protocol: firewall.ProtoUDP,
	}
	network := netip.MustParsePrefix("1.2.3.4/24")
	c := cert.CachedCertificate{
		Certificate:    &dummyCert{name: "host1", networks: []netip.Prefix{network}, groups: []string{"default-group"}, issuer: "signer-shasum"},
		InvertedGroups: map[string]struct{}{"default-group": {}},
	}
	h := HostInfo{ConnectionState: &ConnectionState{peerCert: &c}, vpnAddrs: []netip.Addr{network.Addr()}}
	h.buildNetworks(myVpnNetworksTable, c.Certificate)

	// tcp 40ms, udp 20ms, default 60ms
	fw := NewFirewall(l, 40*time.Millisecond, 20*time.Millisecond, 60*time.Millisecond, c.Certificate)
	if err := fw.AddRule(true, firewall.ProtoAny, 0, 0, []string{"any"}, "", "", "", "", ""); err != nil {
		t.Fatal(err)
	}
	cp := cert.NewCAPool()

	// no outbound rule: outbound is dropped
	if err := fw.Drop(p, false, &h, cp, nil); err != ErrNoMatchingRule {
		t.Fatalf("outbound before any flow: %v", err)
	}
	// inbound allowed by rule: creates the flow
	if err := fw.Drop(p, true, &h, cp, nil); err != nil {
		t.Fatalf("inbound: %v", err)
	}
	// outbound honoured because of the tracked flow
	if err := fw.Drop(p, false, &h, cp, nil); err != nil {
		t.Fatalf("outbound in flow: %v", err)
	}
	// idle for 25x the UDP timeout, no other traffic at all
	time.Sleep(500 * time.Millisecond)
	exp := fw.Conntrack.Conns[p].Expires
	if !exp.Before(time.Now()) {
		t.Fatalf("test setup: Expires not in the past")
	}
	// a packet no rule allows must now be dropped: the flow has been idle longer than its timeout
	if err := fw.Drop(p, false, &h, cp, nil); err != ErrNoMatchingRule {
		t.Errorf("outbound after %v idle (udp timeout 20ms, conn.Expires %v ago): got %v, want ErrNoMatchingRule",
			500*time.Millisecond, time.Since(exp), err)
	}
}
