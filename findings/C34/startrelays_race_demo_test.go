package nebula

// Demonstration for finding F9 (property C34). Copy into /repo/ and run WITH the race detector:
//   go1.26.8 test -race -vet=off -count=1 -run TestF9 .
// Before the fix relayManager.StartRelays (handshake manager goroutine) read hostinfo.remotes.relays without the RemoteList lock
// while a lighthouse handler (underlay reader goroutine) rebuilds that slice in place under the write lock: the race detector
// reports a data race (read in StartRelays / write in unlockedCollect) and the test fails.

import (
	"net/netip"
	"sync"
	"testing"

	"github.com/gaissmai/bart"
	"github.com/slackhq/nebula/test"
)

func TestF9StartRelaysReadsRelaysUnderLock(t *testing.T) {
	l := test.NewLogger()
	me := netip.MustParseAddr("10.0.0.1")
	peer := netip.MustParseAddr("10.0.0.9")
	lh := netip.MustParseAddr("10.0.0.2")
	mine := new(bart.Lite)
	mine.Insert(netip.PrefixFrom(me, 32))
	f := &Interface{myVpnAddrsTable: mine, l: l}
	rm := &relayManager{l: l}
	rm.useRelays.Store(true)
	rl := NewRemoteList([]netip.Addr{peer}, nil)
	hh := &HandshakeHostInfo{hostinfo: &HostInfo{remotes: rl, vpnAddrs: []netip.Addr{peer}}}

	var wg sync.WaitGroup
	wg.Add(1)
	go func() {
		defer wg.Done()
		// what handleHostQueryReply does on an underlay reader goroutine
		for i := 0; i < 3000; i++ {
			rl.Lock()
			rl.unlockedSetRelay(lh, []netip.Addr{me, me})
			rl.Unlock()
			rl.Rebuild(nil)
		}
	}()
	// what the handshake manager's goroutine does on every attempt; the only relay is this node itself, so nothing is sent
	for i := 0; i < 3000; i++ {
		rm.StartRelays(f, peer, hh, nil)
	}
	wg.Wait()
}
