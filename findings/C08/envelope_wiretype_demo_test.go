// Demonstration for finding F10 (property C08). Copy into /repo/handshake/ and run: go1.26.8 test -vet=off -count=1 -run TestG9 ./handshake/
package handshake

import "testing"

// C08 reproduction: the envelope field Details (=1) sent with wire type varint is a known
// field with the wrong wire type; the hand-written decoder skips it instead of rejecting it.
func TestG9EnvelopeWrongWireType(t *testing.T) {
	for _, in := range [][]byte{
		{0x08, 0x05},                         // field 1, varint 5
		{0x0d, 1, 2, 3, 4},                   // field 1, fixed32
		{0x09, 1, 2, 3, 4, 5, 6, 7, 8},       // field 1, fixed64
	} {
		p, err := UnmarshalPayload(in)
		if err == nil {
			t.Errorf("input %x: accepted (payload %+v), want error: known field 1 with wrong wire type", in, p)
		}
	}
}
