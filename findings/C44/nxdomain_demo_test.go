// Demonstration for property C44. Copy into /repo/ and run: go1.26.8 test -vet=off -count=1 -run 'TestG10Known' .
package nebula

import (
	"log/slog"
	"net/netip"
	"testing"

	"github.com/miekg/dns"
)

func TestG10KnownNameOtherTypeIsNXDOMAIN(t *testing.T) {
	ds := &dnsServer{l: slog.New(slog.DiscardHandler), dnsMap4: map[string]netip.Addr{}, dnsMap6: map[string]netip.Addr{}, hostMap: &HostMap{}}
	ds.enabled.Store(true)
	ds.Add("host.neb.", []netip.Addr{netip.MustParseAddr("10.0.0.1")})
	for _, qt := range []uint16{dns.TypeA, dns.TypeAAAA, dns.TypeMX, dns.TypeSRV, dns.TypeTXT} {
		m := &dns.Msg{}
		m.SetQuestion("host.neb.", qt)
		ds.parseQuery(m, stubDNSWriter{})
		t.Logf("known name, type %s -> rcode=%s answers=%d", dns.TypeToString[qt], dns.RcodeToString[m.Rcode], len(m.Answer))
		if m.Rcode == dns.RcodeNameError {
			t.Errorf("NXDOMAIN returned for the known name host.neb. (type %s): should be NOERROR with an empty answer", dns.TypeToString[qt])
		}
	}
	// mixed: A for an unknown name together with MX for a known one
	m := &dns.Msg{}
	m.Question = []dns.Question{{Name: "host.neb.", Qtype: dns.TypeMX, Qclass: dns.ClassINET}}
	ds.parseQuery(m, stubDNSWriter{})
	t.Logf("rcode=%s", dns.RcodeToString[m.Rcode])
}
