package nebula

// Demonstration for candidate finding F5b (property C22). Copy into /repo/ and run
//   go1.26.8 test -vet=off -count=1 -run TestC22NullSelectorLoads .
// A selector key given as YAML null
// (`host:` with nothing after it) is turned into the text "<nil>" by convertRule and then counts as a selector.

import (
	"testing"

	"github.com/slackhq/nebula/config"
	"github.com/slackhq/nebula/test"
)

func TestC22NullSelectorLoads(t *testing.T) {
	l := test.NewLogger()
	for _, key := range []string{"host", "group", "ca_name", "ca_sha"} {
		conf := config.NewC(l)
		if err := conf.LoadString("firewall:\n  outbound:\n    - port: 1\n      proto: any\n      " + key + ":\n"); err != nil {
			t.Fatal(err)
		}
		mf := &mockFirewall{}
		err := AddFirewallRulesFromConfig(l, false, conf, mf)
		if err == nil {
			t.Errorf("%s: null loads as a rule: %+v (expected: at least one of host, group, ... must be provided)", key, mf.lastCall)
		} else {
			t.Logf("%s: refused: %v", key, err)
		}
	}
}
