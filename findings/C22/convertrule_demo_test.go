package nebula

// Demonstration for finding F5 (property C22). Copy into /repo/ and run
//   go1.26.8 test -vet=off -count=1 -run TestF5 .
// Before the fix each of these rule maps made convertRule panic instead of returning a rule or an error.

import (
	"testing"

	"github.com/slackhq/nebula/test"
)

func TestF5ConvertRuleNeverPanics(t *testing.T) {
	l := test.NewLogger()
	cases := []map[string]any{
		{"port": "1", "proto": "any", "groups": []any{1, 2}},
		{"port": "1", "proto": "any", "groups": nil},
		{"port": "1", "proto": "any", "group": []any{}},
	}
	for i, c := range cases {
		func() {
			defer func() {
				if r := recover(); r != nil {
					t.Errorf("case %d: convertRule panicked: %v", i, r)
				}
			}()
			r, err := convertRule(l, c, "test", i)
			t.Logf("case %d: rule=%+v err=%v", i, r, err)
		}()
	}
	r, err := convertRule(l, cases[0], "test", 0)
	if err != nil || len(r.Groups) != 2 || r.Groups[0] != "1" || r.Groups[1] != "2" {
		t.Fatalf("groups [1,2] should load as the group names \"1\" and \"2\": %+v %v", r, err)
	}
}
