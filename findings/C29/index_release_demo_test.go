// Demonstration for finding F11 (property C29). Copy into /repo/ and run: go1.26.8 test -vet=off -count=1 -run TestC29 .
package nebula

import (
	"net/netip"
	"testing"

	"github.com/slackhq/nebula/test"
	"github.com/slackhq/nebula/udp"
)

// C29 reproduction 1: handleRecvError closes an ESTABLISHED tunnel T (main table, local index X)
// and then calls handshakeManager.DeleteHostInfo(T) "to allow for fast reconnect". Between the two
// calls X is free in both tables, so a concurrent allocateIndex may hand X to a pending handshake
// hh2 (forced here, as generateIndex is random). DeleteHostInfo(T) then deletes hm.indexes[X]
// without an ownership test and releases hh2's reservation.
func TestC29_PendingIndexReleasedByNonOwner(t *testing.T) {
	l := test.NewLogger()
	mainHM := newHostMap(l)
	pr := []netip.Prefix{}
	mainHM.preferredRanges.Store(&pr)
	hm := NewHandshakeManager(l, mainHM, newTestLighthouse(), &udp.NoopConn{}, defaultHandshakeConfig)
	f := &Interface{handshakeManager: hm, hostMap: mainHM, l: l}
	hm.f = f

	const X = uint32(0x1234)
	peerA, peerB := netip.MustParseAddr("10.0.0.2"), netip.MustParseAddr("10.0.0.3")

	// established tunnel T with local index X
	T := &HostInfo{localIndexId: X, remoteIndexId: 77, vpnAddrs: []netip.Addr{peerA}, ConnectionState: &ConnectionState{}}
	mainHM.Lock()
	mainHM.unlockedAddHostInfo(T, f)
	mainHM.Unlock()

	// handleRecvError, first half: f.closeTunnel(T)
	mainHM.DeleteHostInfo(T)

	// concurrent handshake start to peerB whose allocateIndex draws X (free in both tables now)
	hm.StartHandshake(peerB, nil)
	hh2 := hm.vpnIps[peerB]
	hh2.hostinfo.localIndexId = X // what allocateIndex does on success
	hm.indexes[X] = hh2           //

	// handleRecvError, second half: f.handshakeManager.DeleteHostInfo(T)
	hm.DeleteHostInfo(T)

	if hm.indexes[X] != hh2 {
		t.Fatalf("pending index %#x owned by the handshake to %v was released by deleting tunnel %v, which does not own it: replies to that handshake are now dropped (queryIndex returns nil) and the index can be handed out twice", X, peerB, peerA)
	}
}

// C29 reproduction 2: a tunnel is removed twice (connection manager deleteTunnel racing a
// close-tunnel / recv_error for the same tunnel); in between its index was handed out again and
// completed into the main table. The second removal releases the new owner's index.
func TestC29_MainIndexReleasedByStaleDelete(t *testing.T) {
	l := test.NewLogger()
	mainHM := newHostMap(l)
	f := &Interface{hostMap: mainHM, l: l}
	const X = uint32(0x1234)
	peerA, peerB := netip.MustParseAddr("10.0.0.2"), netip.MustParseAddr("10.0.0.3")
	T := &HostInfo{localIndexId: X, remoteIndexId: 77, vpnAddrs: []netip.Addr{peerA}, ConnectionState: &ConnectionState{}}
	T2 := &HostInfo{localIndexId: X, remoteIndexId: 78, vpnAddrs: []netip.Addr{peerB}, ConnectionState: &ConnectionState{}}
	mainHM.Lock()
	mainHM.unlockedAddHostInfo(T, f)
	mainHM.Unlock()
	mainHM.DeleteHostInfo(T) // first removal: X is free
	mainHM.Lock()
	mainHM.unlockedAddHostInfo(T2, f) // X handed out again (passes CheckAndComplete: X is in neither table)
	mainHM.Unlock()
	mainHM.DeleteHostInfo(T) // second, stale removal of T
	if mainHM.Indexes[X] != T2 {
		t.Fatalf("main index %#x owned by the tunnel to %v was released by a repeated delete of the tunnel to %v; the tunnel is still in Hosts (%v) but unreachable by index", X, peerB, peerA, mainHM.Hosts[peerB] == T2)
	}
}
