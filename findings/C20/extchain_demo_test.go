package iputil

// Demonstration for finding F4 (property C20). Copy into /repo/iputil/ and run
//   go1.26.8 test -vet=off -count=1 -run TestF4 ./iputil/
// Before the fix: a chain of 9 destination-option headers is reported as protocol 60 (an extension header) with a nil error.

import "testing"

func f4Chain(n int) []byte {
	p := make([]byte, 40)
	p[0] = 0x60
	p[6] = 60
	for i := 0; i < n; i++ {
		h := make([]byte, 8)
		if i == n-1 {
			h[0] = 6 // TCP
		} else {
			h[0] = 60
		}
		p = append(p, h...)
	}
	return append(p, make([]byte, 20)...)
}

func TestF4LongExtensionChain(t *testing.T) {
	for n := 1; n <= 12; n++ {
		proto, off, _, _, err := IPv6FindUpperProtocol(f4Chain(n))
		if err == nil && (proto != 6 || off != 40+8*n) {
			t.Fatalf("%d extension headers: classified as proto %d at %d with nil error", n, proto, off)
		}
		if n <= 8 && err != nil {
			t.Fatalf("%d extension headers: rejected: %v", n, err)
		}
	}
}
