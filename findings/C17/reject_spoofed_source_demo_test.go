// Demonstration for property C17. Copy into /repo/ and run: go1.26.8 test -vet=off -count=1 -run 'TestC17' .
package nebula

// Reproduction for the C17 candidate finding "reject replies are sent to unauthenticated addresses".
//   cd /tmp/impl/g1/repo && go1.26.8 test -vet=off -count=1 -run TestC17RejectToSpoofedSource .
//
// Node N (10.0.0.2/24) has a tunnel to peer P whose certificate holds 10.0.0.1/24 only.
// firewall.inbound_action is "reject". P sends, inside its tunnel, a UDP datagram whose inner source is
// 10.0.0.99 - an address P is not certified for. Drop refuses it (ErrInvalidRemoteIP), and the refusal
// path then builds an ICMP unreachable addressed *to 10.0.0.99* and sends it into P's tunnel without any
// address check: a packet sent to P whose destination is none of P's certified addresses.

import (
	"net/netip"
	"sync"
	"testing"
	"time"

	"github.com/rcrowley/go-metrics"
	"github.com/slackhq/nebula/cert"
	"github.com/slackhq/nebula/firewall"
	"github.com/slackhq/nebula/header"
	"github.com/slackhq/nebula/test"
	"github.com/slackhq/nebula/udp"
	"github.com/stretchr/testify/require"
)

type c17RecConn struct {
	udp.NoopConn
	mu   sync.Mutex
	sent [][]byte
}

func (r *c17RecConn) WriteTo(b []byte, _ netip.AddrPort) error {
	r.mu.Lock()
	defer r.mu.Unlock()
	r.sent = append(r.sent, append([]byte(nil), b...))
	return nil
}

func c17UDPv4(src, dst netip.Addr) []byte {
	p := make([]byte, 28)
	p[0] = 0x45
	p[2], p[3] = 0, 28
	p[8] = 64
	p[9] = 17 // udp
	copy(p[12:16], src.AsSlice())
	copy(p[16:20], dst.AsSlice())
	p[20], p[21] = 0x30, 0x39 // sport 12345
	p[22], p[23] = 0x00, 0x35 // dport 53
	p[24], p[25] = 0, 8
	return p
}

func TestC17RejectToSpoofedSource(t *testing.T) {
	defer metrics.DefaultRegistry.UnregisterAll()
	l := test.NewLogger()
	initR, respR := runTestHandshake(t) // initiator = P (10.0.0.1), responder = N (10.0.0.2)
	nodeSide, err := newConnectionStateFromResult(respR)
	require.NoError(t, err)
	peerSide, err := newConnectionStateFromResult(initR)
	require.NoError(t, err)

	nodeCert := &dummyCert{version: cert.Version2, networks: []netip.Prefix{netip.MustParsePrefix("10.0.0.2/24")}}
	fw := NewFirewall(l, time.Minute, time.Minute, time.Minute, nodeCert)
	fw.InboundSendReject = true
	// only tcp/1 is allowed: every UDP datagram below is refused
	require.NoError(t, fw.AddRule(true, firewall.ProtoTCP, 1, 1, []string{"any"}, "", "", "", "", ""))

	rec := &c17RecConn{}
	f := &Interface{l: l, firewall: fw, pki: &PKI{}, writers: []udp.Conn{rec}, messageMetrics: newMessageMetricsOnlyRecvError()}
	peer := &HostInfo{vpnAddrs: []netip.Addr{netip.MustParseAddr("10.0.0.1")}, ConnectionState: nodeSide, remoteIndexId: 1000, localIndexId: 2000}
	underlay := netip.MustParseAddrPort("192.0.2.1:4242")
	peer.remote.Store(&underlay)
	require.Nil(t, peer.networks) // single certified address inside N's network: table-less case
	rxc := &rxContext{q: 0, scratch: make([]byte, mtu), nb: make([]byte, 12), fwPacket: &firewall.ParsedPacket{}}

	// what P finds inside its tunnel, as P's own firewall would read it
	replyTo := func() (dst netip.Addr, ok bool) {
		if len(rec.sent) == 0 {
			return netip.Addr{}, false
		}
		wire := rec.sent[len(rec.sent)-1]
		rec.sent = nil
		h := &header.H{}
		require.NoError(t, h.Parse(wire))
		require.Equal(t, header.Message, h.Type)
		plain, err := peerSide.Decrypt(l, h.MessageCounter, wire, make([]byte, 12))
		require.NoError(t, err, "P can decrypt what N sent it")
		fp := &firewall.ParsedPacket{}
		require.NoError(t, newPacket(plain, true, fp))
		t.Logf("N sent P an overlay packet %v -> %v proto %d", fp.RemoteAddr, fp.LocalAddr, fp.Protocol)
		return fp.LocalAddr, true
	}

	// 1. authentic source, no matching rule: the documented reject reply, addressed to P's certified address
	f.handleOutsideMessagePacket(peer, 1, c17UDPv4(netip.MustParseAddr("10.0.0.1"), netip.MustParseAddr("10.0.0.2")), rxc)
	dst, ok := replyTo()
	require.True(t, ok, "a rule refusal is answered (inbound_action: reject)")
	require.Equal(t, netip.MustParseAddr("10.0.0.1"), dst)

	// 2. spoofed source: Drop refuses with ErrInvalidRemoteIP before any rule is looked at
	spoofed := netip.MustParseAddr("10.0.0.99")
	f.handleOutsideMessagePacket(peer, 2, c17UDPv4(spoofed, netip.MustParseAddr("10.0.0.2")), rxc)
	if dst, ok := replyTo(); ok {
		t.Fatalf("a packet sent to P has destination %v, which is not one of P's certified addresses (P holds 10.0.0.1 only)", dst)
	}
}
