// Demonstration for finding F6 (property C36). Copy into /repo/ and run: go1.26.8 test -vet=off -count=1 -run TestF6 .
package nebula

import (
	"context"
	"net/netip"
	"sync"
	"testing"
	"time"

	"github.com/gaissmai/bart"
	"github.com/slackhq/nebula/config"
	"github.com/slackhq/nebula/test"
	"github.com/slackhq/nebula/udp"
	"github.com/stretchr/testify/require"
)

// F6 reproduction (C36): a lighthouse-sent HostPunchNotification naming an underlay address that lies inside
// this node's own overlay network. shouldAdd/unlockedShouldAdd* would refuse that address for every other use.
type f6Conn struct {
	udp.NoopConn
	mu  sync.Mutex
	dst []netip.AddrPort
}

func (c *f6Conn) WriteTo(_ []byte, a netip.AddrPort) error {
	c.mu.Lock()
	c.dst = append(c.dst, a)
	c.mu.Unlock()
	return nil
}

func TestF6_PunchIntoOwnOverlayNetwork(t *testing.T) {
	l := test.NewLogger()
	c := config.NewC(l)
	lhAddr := netip.MustParseAddr("10.128.0.1")
	c.Settings["lighthouse"] = map[string]any{"am_lighthouse": false, "hosts": []any{lhAddr.String()}}
	c.Settings["static_host_map"] = map[string]any{lhAddr.String(): []any{"1.1.1.1:4242"}}
	c.Settings["punchy"] = map[string]any{"punch": true, "delay": "1ms"}

	myVpnNet := netip.MustParsePrefix("10.128.0.2/24")
	nt := new(bart.Lite)
	nt.Insert(myVpnNet.Masked())
	cs := &CertState{myVpnNetworks: []netip.Prefix{myVpnNet}, myVpnNetworksTable: nt}

	conn := &f6Conn{}
	p := NewPunchyFromConfig(l, c, conn)
	lh, err := NewLightHouseFromConfig(t.Context(), l, c, cs, nil, p)
	require.NoError(t, err)
	lh.ifce = &mockEncWriter{}
	ctx, cancel := context.WithCancel(context.Background())
	defer cancel()
	p.Start(ctx, &mockEncWriter{}, nil, lh)

	inside := netip.MustParseAddrPort("10.128.0.77:4242") // inside my own overlay network
	outside := netip.MustParseAddrPort("8.8.8.8:4242")
	peer := netip.MustParseAddr("10.128.0.9")

	// sanity: the filter used by every other entrance refuses the inside address
	require.False(t, lh.shouldAdd([]netip.Addr{peer}, inside.Addr()))
	require.True(t, lh.shouldAdd([]netip.Addr{peer}, outside.Addr()))

	msg := &NebulaMeta{Type: NebulaMeta_HostPunchNotification, Details: &NebulaMetaDetails{
		VpnAddr: netAddrToProtoAddr(peer),
		V4AddrPorts: []*V4AddrPort{
			netAddrToProtoV4AddrPort(inside.Addr(), inside.Port()),
			netAddrToProtoV4AddrPort(outside.Addr(), outside.Port()),
		},
	}}
	b, err := msg.Marshal()
	require.NoError(t, err)

	lhh := lh.NewRequestHandler()
	lhh.HandleRequest(netip.MustParseAddrPort("1.1.1.1:4242"), []netip.Addr{lhAddr}, b, &testEncWriter{})

	deadline := time.Now().Add(2 * time.Second)
	for time.Now().Before(deadline) {
		conn.mu.Lock()
		n := len(conn.dst)
		conn.mu.Unlock()
		if n >= 2 {
			break
		}
		time.Sleep(5 * time.Millisecond)
	}
	conn.mu.Lock()
	defer conn.mu.Unlock()
	t.Logf("punch destinations written: %v", conn.dst)
	for _, d := range conn.dst {
		if d == inside {
			t.Fatalf("punch packet written to %v, an underlay address inside my own overlay network %v", d, myVpnNet.Masked())
		}
	}
}
