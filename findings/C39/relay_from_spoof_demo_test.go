// Demonstration for finding F13 (property C39). Copy into /repo/ and run: go1.26.8 test -vet=off -count=1 -run TestG7 .
// Passes on the repaired tree, fails before the fix.
package nebula

import (
	"bytes"
	"log/slog"
	"net/netip"
	"testing"

	"github.com/gaissmai/bart"
	"github.com/slackhq/nebula/cert"
	"github.com/slackhq/nebula/test"
	"github.com/stretchr/testify/require"
)

// g7 scratch reproduction (C39 observation): handleCreateRelayRequest trusts the claimed relayFrom.
// A third authenticated peer A naming X as relayFrom (a) resets the established X<->B onward record to
// Requested, and (b) makes the relay tell B that the *existing* X<->B index now belongs to (A,B), so
// traffic B sends "to A" on that index is forwarded to X.
func TestG7RelayFromIsNotValidated(t *testing.T) {
	var buf bytes.Buffer
	l := test.NewLoggerWithOutputAndLevel(&buf, slog.LevelDebug)
	hm := newHostMap(l)
	rm := &relayManager{l: l, hostmap: hm}
	rm.amRelay.Store(true)

	me := netip.MustParseAddr("10.0.0.1")
	myAddrs := new(bart.Lite)
	myAddrs.Insert(netip.PrefixFrom(me, me.BitLen()))
	f := &Interface{l: l, hostMap: hm, myVpnAddrsTable: myAddrs, myVpnAddrs: []netip.Addr{me}}

	mk := func(addr string, idx uint32, ua string) *HostInfo {
		h := &HostInfo{
			vpnAddrs:        []netip.Addr{netip.MustParseAddr(addr)},
			localIndexId:    idx,
			remoteIndexId:   idx + 1000,
			ConnectionState: &ConnectionState{}, // eKey == nil: every send is a no-op
			relayState: RelayState{
				relayForByAddr: map[netip.Addr]*Relay{},
				relayForByIdx:  map[uint32]*Relay{},
			},
		}
		ap := netip.MustParseAddrPort(ua)
		h.remote.Store(&ap)
		hm.Lock()
		hm.unlockedAddHostInfo(h, f)
		hm.Unlock()
		return h
	}
	A := mk("10.0.0.2", 2, "192.0.2.2:4242")
	X := mk("10.0.0.3", 3, "192.0.2.3:4242")
	B := mk("10.0.0.4", 4, "192.0.2.4:4242")
	aX, aB := X.vpnAddrs[0], B.vpnAddrs[0]

	// 1. the legitimate pair: X asks the relay for a path to B, B answers.
	rm.handleCreateRelayRequest(cert.Version2, X, f, &NebulaControl{
		Type: NebulaControl_CreateRelayRequest, InitiatorRelayIndex: 31,
		RelayFromAddr: netAddrToProtoAddr(aX), RelayToAddr: netAddrToProtoAddr(aB),
	})
	onBforX, ok := B.relayState.QueryRelayForByIp(aX)
	require.True(t, ok)
	i2 := onBforX.LocalIndex
	rm.handleCreateRelayResponse(cert.Version2, B, f, &NebulaControl{
		Type: NebulaControl_CreateRelayResponse, InitiatorRelayIndex: i2, ResponderRelayIndex: 41,
		RelayFromAddr: netAddrToProtoAddr(aX), RelayToAddr: netAddrToProtoAddr(aB),
	})
	_, r, err := hm.QueryVpnAddrsRelayFor(X.vpnAddrs, aB)
	require.NoError(t, err, "X -> B is forwardable")
	require.Equal(t, uint32(41), r.RemoteIndex)
	_, _, err = hm.QueryVpnAddrsRelayFor(B.vpnAddrs, aX)
	require.NoError(t, err, "B -> X is forwardable")

	// 2. A (authenticated, but neither X nor B) claims to be X.
	rm.handleCreateRelayRequest(cert.Version2, A, f, &NebulaControl{
		Type: NebulaControl_CreateRelayRequest, InitiatorRelayIndex: 77,
		RelayFromAddr: netAddrToProtoAddr(aX), RelayToAddr: netAddrToProtoAddr(aB),
	})
	after, _ := B.relayState.QueryRelayForByIp(aX)
	t.Logf("X<->B onward record after A's request: state=%d (Requested=%d, Established=%d), index reused=%v",
		after.State, Requested, Established, after.LocalIndex == i2)
	_, _, err = hm.QueryVpnAddrsRelayFor(X.vpnAddrs, aB)
	t.Logf("X -> B forwardable after A's request: err=%v", err)
	if err != nil || after.State != Established {
		t.Fatalf("a third peer's CreateRelayRequest claiming relayFrom=X reset the established X<->B onward record (state=%d, err=%v): X->B forwarding stops and the reused index can be re-bound to another peer", after.State, err)
	}
}
