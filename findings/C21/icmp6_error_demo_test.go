// Demonstration for finding F15 (property C21). Copy into /repo/iputil/ and run: go1.26.8 test -vet=off -count=1 ./iputil/
package iputil

import "testing"

// RFC 4443 2.1: ICMPv6 error messages are those with a zero high-order bit in Type (0..127);
// 2.4(e.1): an ICMPv6 error message must not be originated in response to one.
func TestC21RejectAnswersICMPv6ErrorClass(t *testing.T) {
	for _, typ := range []byte{0, 5, 100, 101, 127} {
		p := make([]byte, 48)
		p[0] = 0x60
		p[5] = 8    // payload length
		p[6] = 58   // ICMPv6
		p[7] = 64
		p[8+15] = 1  // src ::1... (any)
		p[24+15] = 2 // dst
		p[40] = typ
		out := CreateRejectPacket(p, make([]byte, 0, MaxRejectPacketSize))
		if out != nil {
			t.Errorf("ICMPv6 error-class type %d: got a %d-byte ICMPv6 error reply (type %d code %d), want none", typ, len(out), out[40], out[41])
		}
	}
	// the four assigned error types are refused
	for _, typ := range []byte{1, 2, 3, 4} {
		p := make([]byte, 48)
		p[0], p[5], p[6], p[7], p[40] = 0x60, 8, 58, 64, typ
		if out := CreateRejectPacket(p, make([]byte, 0, MaxRejectPacketSize)); out != nil {
			t.Errorf("type %d answered", typ)
		}
	}
}
