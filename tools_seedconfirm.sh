#!/bin/bash
# usage: tools_seedconfirm.sh <ID>   confirms a seeded change in its scratch worktree /tmp/seed/<ID>
# (patch + demo in /tmp/seedout/<ID>): builds, demo fails with the change, demo passes without, full suite passes with it.
id=$1
wt=/tmp/seed/$id; out=/tmp/seedout/$id
export GOFLAGS=-mod=mod GOPROXY=off GOSUMDB=off GOTOOLCHAIN=local; unset GOWORK
cd $wt || exit 2
log=$out/confirm.txt; : > $log
git checkout -q -- . ; git clean -fdq
demo=$(ls $out/*_test.go 2>/dev/null | head -1)
cmdline=$(grep -m1 -o 'go1.26.8 test[^`]*' $out/demo_path.txt)
dir=$(echo "$cmdline" | awk '{print $NF}'); dir=${dir#./}; dir=${dir%/}; [ "$dir" = "." ] && dir=""
rel=${dir:+$dir/}$(basename $demo)
echo "demo=$demo rel=$rel cmd=$cmdline" >> $log
cp $demo $wt/$rel
# without change
( eval "$cmdline" ) > $out/demo_without.txt 2>&1; echo "demo WITHOUT change: exit=$?" >> $log
git apply $out/patch.diff || { echo "patch failed" >> $log; exit 2; }
go1.26.8 build ./... >> $log 2>&1; echo "build with change: exit=$?" >> $log
( eval "$cmdline" ) > $out/demo_with.txt 2>&1; echo "demo WITH change: exit=$?" >> $log
rm -f $wt/$rel
go1.26.8 test -vet=off -count=1 -timeout 60m ./... > $out/suite_with.txt 2>&1; rc=$?
if [ $rc != 0 ]; then
  # timing-sensitive tests (TestListenOutTeardown_TrafficPatterns, TestControlStopClosesOnTimer, dns Stop_beforeBind) fail under
  # machine load: re-run each failing package alone, up to 3 times; the suite counts as passing only if each of them then passes
  rc=0
  for pk in $(grep '^FAIL[[:space:]]' $out/suite_with.txt | awk '{print $2}' | sort -u); do
    okp=1
    for try in 1 2 3; do
      if go1.26.8 test -vet=off -count=1 -timeout 30m $pk >> $out/suite_rerun.txt 2>&1; then okp=0; break; fi
    done
    echo "rerun $pk alone: $([ $okp = 0 ] && echo pass || echo FAIL)" >> $log
    [ $okp = 0 ] || rc=1
  done
fi
echo "suite WITH change: exit=$rc fails=$(grep -c '^FAIL' $out/suite_with.txt)" >> $log
cp $demo $wt/$rel
cat $log
