#!/usr/bin/env python3
# regenerates the seed table of DESIGN.md §7.1 (between the table header and <!-- SEED-TABLE-END -->) from /verif/seeded/*/
import json, os, re, glob
rows=[]
for d in sorted(glob.glob('/verif/seeded/*/')):
    sid=os.path.basename(d.rstrip('/'))
    try:
        m=json.load(open(d+'meta.json'))
    except Exception:
        continue
    notes=open(d+'notes.txt').read().splitlines() if os.path.exists(d+'notes.txt') else []
    what=' '.join(l.strip() for l in notes[1:6] if l.strip())
    what=re.sub(r'\s+',' ',what)[:330].replace('|','/')
    rep=(m.get('reported') or '').split('\n')[0]
    mm=re.search(r'rule=(\S+) construct=(.*?) at ', rep)
    reported=('`%s` @ `%s`'%(mm.group(1), mm.group(2)[:90])) if mm else (m.get('checks','').strip() or '?')
    rows.append('| %s | %s | %s | %s | %s |'%(sid, m.get('property','?'), what, (m.get('needs_to_manifest') or '').replace('|','/'), reported.replace('|','/')))
p='/verif/DESIGN.md'
s=open(p).read()
hdr='| seed | prop | the change | needs, to manifest | reported by |\n|------|------|------------|--------------------|-------------|\n'
i=s.index(hdr)+len(hdr)
j=s.index('<!-- SEED-TABLE-END -->')
s=s[:i]+'\n'.join(rows)+'\n'+s[j:]
open(p,'w').write(s)
print(len(rows),'seed rows')
