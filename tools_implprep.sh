#!/bin/bash
# usage: tools_implprep.sh <group> <ID>...   prepares /tmp/impl/<group> (copy of nebcheck, scratch verif dir, scratch worktree) and the task text
g=$1; shift
d=/tmp/impl/$g
mkdir -p $d/v $d/bin
rm -rf $d/nebcheck; cp -r /verif/nebcheck $d/nebcheck
cp /verif/known_findings.json $d/v/
[ -d $d/repo ] || git -C /repo worktree add --detach $d/repo HEAD >/dev/null 2>&1
{
cat <<EOT
You are extending a repository-specific STATIC ANALYSER ("nebcheck", Go, built on go/packages + go/types + go/ssa) that decides semantic properties of the Go project slackhq/nebula (an overlay VPN) from its source, without running nebula code. The project under analysis is at /repo (READ ONLY for you - never edit anything in /repo). The analyser and its design are in /verif (READ ONLY for you as well); you work on a private copy.

YOUR WORK AREA: $d
  $d/nebcheck   your private copy of the analyser source (package main). ADD new files here. Do NOT edit the existing files (engine: main.go ctx.go helpers.go k1.go prov.go effects.go locks.go lockdisc.go loops.go exprs.go abseval.go timeabs.go bitprov.go canary.go load.go manifest.go na.go and the existing p_cXX.go property files). If you need a new generic helper, put it in a NEW file named x_${g}_helpers.go and prefix every new top-level identifier in it with "${g}" (lower-case, e.g. ${g}FindStores) so it cannot collide with helpers other people are adding in parallel.
  $d/repo       a scratch git worktree of /repo that you MAY edit freely to try mutants and benign refactorings (point the analyser at it with NEBCHECK_REPO=$d/repo). Always restore it afterwards (git -C $d/repo checkout -- .).
  $d/v          scratch output dir (evidence/, out/) - always set NEBCHECK_VERIF=$d/v so you never write into /verif.

Build and run (the sandbox is OFFLINE; use exactly these commands; a conda warning line printed by the shell is harmless; the shell cwd resets between calls so always cd):
  cd $d/nebcheck && env -u GOWORK GOFLAGS=-mod=mod GOPROXY=off GOSUMDB=off GOTOOLCHAIN=local go1.26.8 build -o $d/bin/nebcheck . 
  NEBCHECK_VERIF=$d/v $d/bin/nebcheck -p <ID> -tier quick        # against /repo
  NEBCHECK_VERIF=$d/v $d/bin/nebcheck -p <ID> -tier thorough     # + canaries (in-memory mutants through the loader overlay)
  NEBCHECK_VERIF=$d/v NEBCHECK_REPO=$d/repo $d/bin/nebcheck -p <ID> -tier quick    # against your scratch worktree
  NEBCHECK_DUMP=<substring of function name> ... prints the SSA of matching functions (also: ssadump -build=F is on PATH).
Exit code contract: 0 = property held on everything analysed; 1 = prints "VIOLATION property=<ID> replay=<path>"; 2 = UNDECIDED (anchor missing / unrecognised shape / floor not met).

FIRST read: /verif/DESIGN.md sections 1-3 (approach, engine, the rule kinds K1..K17) and the sections of section 4 for your properties (copied below), then the engine sources in $d/nebcheck (helpers.go, k1.go, prov.go, ctx.go, locks.go, lockdisc.go, abseval.go, exprs.go, effects.go, loops.go, canary.go, main.go) and two or three finished property files as models of the expected style and depth (p_c10.go, p_c30.go, p_c12.go, p_c47.go, p_c28.go). Then read the nebula source your properties are anchored in, carefully, before writing rules.

YOUR PROPERTIES (given and fixed - the "statement" is what must hold; the anchors say where):
EOT
for id in "$@"; do grep "\"id\": \"$id\"" /verif/properties.jsonl | jq .; done
echo
echo "THE DESIGN'S PLAN FOR THEM (from /verif/DESIGN.md section 4; a plan, not a constraint - the code decides; implement what is sound, drop what cannot be made robust, add rules the plan missed):"
for id in "$@"; do awk -v id="### $id " 'index($0,id)==1{p=1;print;next} p&&/^### /{p=0} p' /verif/DESIGN.md; done
cat <<EOT

WHAT TO DELIVER, per property: one new file $d/nebcheck/p_cNN.go that registers the property (register(&Property{...}) in init(), same fields as the models: ID, Title, Patterns (package patterns to load, e.g. []string{"."} for the root package, []string{"./cert/..."}; keep it minimal for speed), Technique, LevelText, LevelNote, Explanation, Run, Canaries, optionally Thorough/Configs) and implements its rules with the engine's helpers.

HARD REQUIREMENTS (these decide whether the work is usable):
 1. STATIC ONLY: decide from the type-checked source / SSA / CFG / call graph. Never execute nebula code, never call a solver, never run tests as the check.
 2. Resolve every anchor as an object (Ref{pkg, recv, name}, c.Field, c.NamedType, constants via c.ConstVal) - NEVER match source text, identifiers of locals, line numbers or positions. Rules must survive behaviour-preserving edits: reordering independent statements, renaming locals/parameters, extracting a helper, if<->switch, changing log text, adding logging/metrics. A rule that would fire on such an edit is worse than no rule.
 3. Each rule must be a genuine NECESSARY condition of the property: breaking the rule must break the behaviour for some input/schedule. Do not encode incidental facts of today's code. State in LevelNote what is NOT decided.
 4. Each rule gets c.Rule(id, description, floor) with a floor = the instance count you confirmed by reading; a rule that matches nothing must come out UNDECIDED, not pass. An anchor that no longer resolves => UNDECIDED (c.Func / c.Field already do that). Unrecognised shape => c.Unknown, not c.Bad.
 5. On today's /repo the check must exit 0 with zero undecided obligations. If a rule reports a violation on today's tree, work out which it is: (a) your rule is wrong or demands more than the property states -> fix the rule; (b) nebula genuinely breaks the property -> do NOT weaken the rule and do NOT edit /repo: reproduce it with a small Go test in your scratch worktree ($d/repo), write the failing input and a proposed minimal patch into NOTES.md, and leave the rule reporting it (I will decide between a fix commit and a known-finding entry).
 6. Obligations are keyed rule+construct (function name + callee/field + ordinal), never by line.
 7. Violation reports must be diagnosable: file:line via c.instrPos / c.P.Pos, the rule, the construct, and for path rules the block path.
 8. CANARIES: at least 4 per property (more is better), each a small realistic behaviour-breaking edit (drop a guard, swap arguments, weaken a comparison, add a writer elsewhere, move a call before the check, ...) that still type-checks; every one must come out "caught" by the intended rule in the thorough tier; none may be "MISSED" and none "skipped". Different canaries should exercise different rules. Think about what a realistic subtle regression of THIS property looks like (boundary values, one of two cooperating sites, a particular path only) and make sure a rule covers it.
 9. BENIGN EDITS: for each property try at least 3 behaviour-preserving refactorings of the anchored code in $d/repo (e.g. extract the guard into a helper that returns the same result on all paths, reorder independent statements, rewrite if/else as switch, rename locals, add a log line or a metric before the guard) and confirm the check still exits 0 on them. Fix the rule if it does not. Restore the worktree afterwards.
10. Speed: quick tier should stay under ~30 s per property.
11. Keep the code compact and in the style of the models; comment the WHY of every table entry (one line of reason per allowed writer / caller / exception).

ALSO write $d/NOTES.md with, per property: the rules implemented (id, what it decides, floor, instances found), what the property states that is NOT decided, canaries and their outcome, benign edits tried and outcome, any candidate genuine defect (failing input + reproduction + proposed minimal patch), and a replacement text for that property's DESIGN.md section-4 entry reflecting what you actually implemented (same format as the plan above).

Work property by property: finish one completely (check passes on /repo, canaries all caught, benign edits silent, NOTES written) before starting the next, so that partial work is still usable. Do not touch /verif or /repo. When everything is done, reply with a short summary (files written, per-property status, anything I must decide).
EOT
} > $d/TASK.txt
echo $d/TASK.txt $(wc -c < $d/TASK.txt)
