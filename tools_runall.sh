#!/bin/bash
# runs every registered check (tier $1, default quick) 4 at a time; prints one line per check
tier=${1:-quick}
cd /verif
ids=$(./bin/nebcheck -list | awk '{print $1}')
mkdir -p /tmp/runall
echo "$ids" | xargs -P 4 -I{} sh -c "./bin/nebcheck -p {} -tier $tier > /tmp/runall/{}.$tier.txt 2>&1; echo {} exit=\$? \$(grep -c MISSED /tmp/runall/{}.$tier.txt) missed \$(head -1 /tmp/runall/{}.$tier.txt | grep -o '(.*s)')"
